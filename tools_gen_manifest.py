#!/usr/bin/env python3
"""Regenerates MANIFEST.json from the table below (kept in one place so it stays valid)."""
import json, sys
props = [json.loads(l) for l in open('/verif/properties.jsonl')]
ids = [p['id'] for p in props]
# id -> (technique, level text, level note, design ref)
claimed = json.load(open('/verif/manifest_claims.json'))
checks = []
for i in ids:
    if i not in claimed: continue
    c = claimed[i]
    checks.append({
        "property_id": i,
        "quick_cmd": f"./check {i} quick",
        "thorough_cmd": f"./check {i} thorough",
        "evidence_file": f"/verif/evidence/{i}.json",
        "replay_cmd_template": f"./check {i} --replay {{path}}",
        "engine": "vcheck",
        "level_claimed": {"category": "exploration", "text": c["text"], "design_ref": c["design_ref"]},
        "level_note": c["note"],
        "technique": c["technique"],
    })
na = [{"property_id": i, "reason": "check not built yet in this round (planned; see DESIGN.md §4)"} for i in ids if i not in claimed]
m = {
    "version": 1,
    "setup_cmd": "./check --setup",
    "hooks": {
        "guard": "cfg(unic_locale_verif)",
        "enable": "RUSTFLAGS=--cfg unic_locale_verif (set in /verif/harness/.cargo/config.toml; the harness is built from that directory)",
        "baseline_off_cmd": "cd /repo && cargo test --workspace --no-fail-fast --offline",
        "source_commits": json.load(open('/verif/hook_commits.json')),
        "add_only": True,
    },
    "engines": [
        {"name": "vcheck", "path": "/verif/harness", "serves_properties": sorted(claimed.keys()),
         "kind_free_text": "Rust binary: proptest strategies (one deterministic RNG per case, ValueTree shrinking pinned to a failure signature), bounded-exhaustive boundary-class enumerations, rayon-parallel, independent reference model as oracle; libFuzzer targets under /verif/fuzz for thorough tiers"},
    ],
    "checks": checks,
    "not_applicable": na,
    "notes": "All checks: ./check <ID> quick|thorough; exit 0 held / 1 VIOLATION / 2 inconclusive. VERIF_SEED seeds every random choice. known_findings.json lists repaired (fixed:) and open findings.",
}
if not na: del m["not_applicable"]
json.dump(m, open('/verif/MANIFEST.json', 'w'), indent=1)
print("claimed", len(checks), "not_applicable", len(na))
