#![no_main]
//! One libFuzzer binary for all byte-level oracles of /verif/harness; the oracle is chosen by
//! the environment variable VFUZZ_TARGET (c01, c02, c03, c04, c05, c09, c10, c13, c17, c19).
//! A library panic aborts through libfuzzer-sys' panic hook; an oracle failure panics here.
use libfuzzer_sys::fuzz_target;
use std::sync::OnceLock;
use vcheck::run::Stats;

static TARGET: OnceLock<vcheck::fuzz::TargetFn> = OnceLock::new();

fuzz_target!(|data: &[u8]| {
    let f = TARGET.get_or_init(|| {
        let name = std::env::var("VFUZZ_TARGET").unwrap_or_else(|_| "c03".into());
        vcheck::fuzz::target_fn(&name).unwrap_or_else(|| panic!("unknown VFUZZ_TARGET {name}"))
    });
    let mut st = Stats::new();
    f(data, &mut st);
    if !st.failures.is_empty() {
        let sigs: Vec<&String> = st.failures.keys().collect();
        panic!("ORACLE FAILURE {sigs:?}");
    }
});
