#!/bin/bash
# Run every check of one tier in sequence and print one summary line per check (used with `vp run`).
#   tools/run_all.sh quick|thorough [ID ...]
cd "$(dirname "$0")/.."
tier="${1:-quick}"; shift
ids=("$@"); [ ${#ids[@]} -eq 0 ] && ids=(C01 C02 C03 C04 C05 C06 C07 C08 C09 C10 C11 C12 C13 C14 C15 C16 C17 C18 C19 C20)
mkdir -p target/runall
for i in "${ids[@]}"; do
  s=$(date +%s); nice -n 5 ./check "$i" "$tier" > "target/runall/$i.$tier.log" 2>&1; rc=$?
  echo "$i $tier rc=$rc $(( $(date +%s)-s ))s $(grep -c VIOLATION target/runall/$i.$tier.log) violation-lines"
  [ $rc -ne 0 ] && tail -n 15 "target/runall/$i.$tier.log"
done
