#!/usr/bin/env python3
"""Print the detection table of the kept seeded changes (/verif/seeded/*/meta.json) as markdown (DESIGN.md section 7)."""
import glob, json, os
rows = []
for f in sorted(glob.glob('/verif/seeded/*/meta.json')):
    m = json.load(open(f))
    name = os.path.basename(os.path.dirname(f))
    first = None
    for h in m.get('history', []):
        # any earlier run in which the change's own check stayed silent
        if h.get('verdicts', {}).get(m['breaks_property']) == 0:
            first = 0
    own = m.get('detected_by_own_check')
    others = [k for k in m.get('detected_by', []) if k != m['breaks_property']]
    summ = (m.get('summary') or '').replace('|', '/').replace('\n', ' ')
    if len(summ) > 150: summ = summ[:147] + '...'
    note = ''
    if first == 0 and own: note = ' (missed at first; caught after strengthening)'
    if not own: note = ' **own check silent**'
    rows.append(f"| {name} | {summ} | {'yes' if own else 'NO'}{note} | {', '.join(others) if others else '-'} |")
print('| change | what it does | caught by its own property check (quick tier) | also caught by |')
print('|---|---|---|---|')
print('\n'.join(rows))
n = len(rows)
print(f'\n{n} changes kept.')
