#!/usr/bin/env python3
"""Batch: for every /tmp/mut/Cxx/out/mN.json not yet processed: confirm it (verify_mutant.py) and, if confirmed,
run every check's quick tier against it in the scratch copy (mutmatrix). Results: /tmp/mut/results/Cxx_mN.json"""
import glob, json, os, subprocess, sys, time
sys.path.insert(0, os.path.dirname(__file__))
import mutmatrix
os.makedirs('/tmp/mut/results', exist_ok=True)
args = sys.argv[1:]
root = '/tmp/mut'; prefix = ''
if '--round2' in args:
    root = '/tmp/mut2'; prefix = 'r2_'
own_only = '--own' in args  # phase 1: only the check of the property the change was written against
only = [a for a in args if not a.startswith('--')]  # optional list of property ids
for meta in sorted(glob.glob(root + '/C*/out/m[0-9].json')):
    d = os.path.dirname(meta); n = os.path.basename(meta)[1:-5]
    prop = d.split('/')[3]
    if only and prop not in only: continue
    out = f'/tmp/mut/results/{prefix}{prop}_m{n}.json'
    old = json.load(open(out)) if os.path.exists(out) else None
    if old and ((own_only and prop in old.get("matrix", {})) or len(old.get("matrix", {})) >= 20): continue
    if old:
        v = old['verify']
    else:
        r = subprocess.run([sys.executable, os.path.dirname(__file__) + '/verify_mutant.py', d, n], text=True, capture_output=True)
        try: v = json.loads(r.stdout.strip().splitlines()[-1])
        except Exception: v = {'confirmed': False, 'error': (r.stdout + r.stderr)[-500:]}
    res = {'property': prop, 'mutant': n, 'verify': v, 'meta': json.load(open(meta))}
    if v.get('confirmed'):
        t = time.time()
        ids = [prop] if own_only else [i for i in mutmatrix.ALL if not (old and i in old.get('matrix', {}))]
        m = mutmatrix.run(f'{d}/m{n}.diff', ids)
        res['matrix'] = dict(old.get('matrix', {})) if old else {}
        if isinstance(m, list):
            res['matrix'].update({i: {'rc': rc, 'sigs': sigs[:6]} for (i, rc, sigs) in m})
        res['matrix_s'] = round(time.time() - t)
    json.dump(res, open(out, 'w'), indent=1)
    print(prop, n, v.get('confirmed'), {k: x['rc'] for k, x in res.get('matrix', {}).items() if x['rc'] != 0}, flush=True)
