#!/usr/bin/env python3
"""Seeded-change campaign driver (scratch copies only; never touches /repo or /verif/target).

  tools/seeded.py <mutant-root> <tag> [--workers N] [PROP ...]

<mutant-root>/<PROP>/out/ holds mN.diff, mN_demo.rs, mN.json as written by an independent sub-agent.
For every mutant: (1) confirm it in a scratch worktree (patch applies, baseline suite passes with it,
demonstration fails with it and passes without it) - tools/verify_mutant.py; (2) run the check of the
property it was written against, plus the related checks listed in RELATED, against a scratch copy of
the tree with the patch applied (tools/mutmatrix.py); (3) write /verif/seeded/<PROP>-<tag>m<N>/
{patch.diff, demo.rs, meta.json}. Earlier verdicts (e.g. from before a check was strengthened) found in
<mutant-root>/results/<PROP>_m<N>.json are kept in meta.json under "history".
"""
import glob, json, os, shutil, subprocess, sys, re
from concurrent.futures import ThreadPoolExecutor
HERE = os.path.dirname(os.path.abspath(__file__))
RELATED = {
 'C01': ['C03'], 'C02': ['C13', 'C15'], 'C03': ['C05', 'C09'], 'C04': ['C05', 'C10'], 'C05': ['C03', 'C10'],
 'C06': ['C08', 'C18'], 'C07': ['C06'], 'C08': ['C06'], 'C09': ['C03'], 'C10': ['C04', 'C12'], 'C11': [],
 'C12': ['C10'], 'C13': ['C03', 'C16'], 'C14': ['C20'], 'C15': ['C02'], 'C16': [], 'C17': ['C05', 'C16'], 'C18': ['C06', 'C14'],
 'C19': [], 'C20': ['C14'],
}


def sh(cmd, env=None, cwd=None):
    return subprocess.run(cmd, shell=True, text=True, capture_output=True, env=env, cwd=cwd)


def worker(wid, jobs, root, tag, threads):
    wid += int(os.environ.get('SEEDED_WID_BASE', '0'))
    mrun = f'/tmp/srun{wid}'
    env = dict(os.environ, MRUN_ROOT=mrun, MVERIFY_WT=f'/tmp/sverify{wid}', VERIF_THREADS=str(threads))
    r = sh(f'python3 {HERE}/mutmatrix.py --setup', env=env)
    if r.returncode:
        print('setup failed', r.stdout, r.stderr)
        return
    for (prop, n) in jobs:
        d = f'{root}/{prop}/out'
        meta = json.load(open(f'{d}/m{n}.json'))
        oldp = f'{root}/results/{prop}_m{n}.json'
        old = json.load(open(oldp)) if os.path.exists(oldp) else None
        if old and old.get('verify', {}).get('confirmed'):
            v = old['verify']
        else:
            r = sh(f'python3 {HERE}/verify_mutant.py {d} {n}', env=env)
            try:
                v = json.loads(r.stdout.strip().splitlines()[-1])
            except Exception:
                v = {'confirmed': False, 'error': (r.stdout + r.stderr)[-400:]}
            os.makedirs(f'{root}/results', exist_ok=True)
            json.dump({'property': prop, 'mutant': n, 'verify': v, 'meta': meta}, open(oldp, 'w'), indent=1)
        name = f'{prop}-{tag}m{n}'
        if not v.get('confirmed'):
            print(name, 'NOT CONFIRMED', v, flush=True)
            continue
        ids = [prop] + RELATED.get(prop, [])
        r = sh(f'python3 {HERE}/mutmatrix.py {d}/m{n}.diff ' + ' '.join(ids), env=env)
        res = {}
        for line in r.stdout.splitlines():
            m = re.match(r'(C\d\d) rc=(\d+) (\d+)s (\[.*?\])', line)
            if m:
                try:
                    sigs = eval(m.group(4))
                except Exception:
                    sigs = []
                res[m.group(1)] = {'rc': int(m.group(2)), 'seconds': int(m.group(3)), 'signatures': sigs[:6]}
        dst = f'/verif/seeded/{name}'
        os.makedirs(dst, exist_ok=True)
        shutil.copy(f'{d}/m{n}.diff', f'{dst}/patch.diff')
        shutil.copy(f'{d}/m{n}_demo.rs', f'{dst}/demo.rs')
        history = []
        if old and old.get('matrix'):
            history.append({'when': 'first run of this campaign, before any strengthening', 'verdicts': {k: x['rc'] for k, x in old['matrix'].items()}})
        prevmeta = f'{dst}/meta.json'
        if os.path.exists(prevmeta):
            pm = json.load(open(prevmeta))
            for h in pm.get('history', []):
                if h not in history:
                    history.append(h)
            if pm.get('verdicts') and pm.get('verdicts') != res:
                history.append({'when': 'earlier run', 'verdicts': {k: x['rc'] for k, x in pm['verdicts'].items()}})
        out = {
            'breaks_property': prop,
            'summary': meta.get('summary'),
            'needs_to_manifest': meta.get('needs'),
            'demonstration': {'file': 'demo.rs', 'copy_to': meta.get('demo_dest'), 'command': meta.get('demo_cmd')},
            'author': 'independent sub-agent given only the property text and its own scratch worktree of the repository (nothing from /verif)',
            'confirmed_by_me': {
                'how': 'tools/verify_mutant.py in a scratch worktree of /repo HEAD: git apply patch.diff; cargo test --workspace --no-fail-fast --offline passes with it; the demonstration passes without the patch and fails with it',
                'patch_applies': v.get('applies'), 'suite_with_patch_rc': v.get('suite_with'),
                'demo_without_patch_rc': v.get('demo_without'), 'demo_with_patch_rc': v.get('demo_with'),
            },
            'what_i_ran': f"./check <ID> quick for ID in {ids} against a scratch copy of the tree with the patch applied (tools/mutmatrix.py; rc 1 = VIOLATION reported, 0 = silent, 2 = inconclusive)",
            'verdicts': res,
            'detected_by': sorted(k for k, x in res.items() if x['rc'] == 1),
            'detected_by_own_check': res.get(prop, {}).get('rc') == 1,
            'history': history,
        }
        json.dump(out, open(f'{dst}/meta.json', 'w'), indent=1, ensure_ascii=False)
        print(name, {k: x['rc'] for k, x in res.items()}, flush=True)
    sh(f'git -C {mrun}/repo checkout -q -- .')


def main():
    a = sys.argv[1:]
    root, tag = a[0], a[1]
    workers = 4
    if '--workers' in a:
        i = a.index('--workers')
        workers = int(a[i + 1])
        del a[i:i + 2]
    only = a[2:]
    jobs = []
    for m in sorted(glob.glob(f'{root}/C*/out/m[0-9].json')):
        prop = m.split('/')[-3]
        n = os.path.basename(m)[1:-5]
        if only and prop not in only:
            continue
        jobs.append((prop, n))
    parts = [jobs[i::workers] for i in range(workers)]
    threads = max(4, 16 // workers)
    with ThreadPoolExecutor(workers) as ex:
        list(ex.map(lambda t: worker(t[0], t[1], root, tag, threads), enumerate(parts)))


main()
