#!/usr/bin/env python3
"""Replace the detection table of DESIGN.md section 7 (between the markers) with the output of tools/seeded_table.py."""
import subprocess, re, os
here = os.path.dirname(os.path.abspath(__file__))
t = subprocess.run(['python3', here + '/seeded_table.py'], text=True, capture_output=True).stdout.strip()
p = '/verif/DESIGN.md'; s = open(p).read()
b, e = '<!-- seeded-table-begin -->', '<!-- seeded-table-end -->'
i, j = s.index(b) + len(b), s.index(e)
s = s[:i] + '\n' + t + '\n' + s[j:]
open(p, 'w').write(s)
print(t.splitlines()[-1])
