#!/usr/bin/env python3
"""Confirm a seeded change independently: in a scratch worktree (/tmp/mverify) check that the patch applies, the
existing suite passes with it, the demonstration fails with it and passes without it.
usage: verify_mutant.py <out-dir> <N>     (expects mN.diff, mN_demo.rs, mN.json in out-dir)"""
import json, os, subprocess, sys, shutil
WT = os.environ.get('MVERIFY_WT', '/tmp/mverify')
def sh(cmd, cwd=WT):
    env = dict(os.environ, CARGO_TARGET_DIR=WT + '/target', CARGO_NET_OFFLINE='true')
    return subprocess.run(cmd, shell=True, cwd=cwd, text=True, capture_output=True, env=env)
def main():
    d, n = sys.argv[1], sys.argv[2]
    if not os.path.isdir(WT):
        r = subprocess.run(f'git -C /repo worktree add --detach {WT} HEAD', shell=True, text=True, capture_output=True)
        if r.returncode: sys.exit(r.stderr)
    sh('git checkout -q -- . && git clean -qfd -e target')
    meta = json.load(open(f'{d}/m{n}.json'))
    import re
    dest, cmd = meta['demo_dest'], re.sub(r'CARGO_TARGET_DIR=\S+\s*', '', meta['demo_cmd'])  # the scratch worktree has its own target dir
    res = {'property': meta['property'], 'mutant': n}
    def demo():
        os.makedirs(os.path.dirname(f'{WT}/{dest}') or WT, exist_ok=True)
        shutil.copy(f'{d}/m{n}_demo.rs', f'{WT}/{dest}')
        r = sh(cmd)
        os.remove(f'{WT}/{dest}')
        return r
    r = demo(); res['demo_without'] = r.returncode
    if r.returncode != 0: res['demo_without_tail'] = (r.stdout + r.stderr)[-600:]
    a = sh(f'git apply {os.path.abspath(d)}/m{n}.diff'); res['applies'] = a.returncode == 0
    if a.returncode == 0:
        t = sh('cargo test --workspace --no-fail-fast --offline'); res['suite_with'] = t.returncode
        if t.returncode != 0: res['suite_tail'] = (t.stdout + t.stderr)[-800:]
        r = demo(); res['demo_with'] = r.returncode
    sh('git checkout -q -- . && git clean -qfd -e target')
    res['confirmed'] = res.get('applies') and res.get('suite_with') == 0 and res.get('demo_with') not in (0, None) and res.get('demo_without') == 0
    print(json.dumps(res))
main()
