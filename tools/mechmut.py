#!/usr/bin/env python3
"""Mechanical mutation campaign (complements the agent-written seeded changes): every line of the library
sources is mutated with small syntactic operators; a mutant that still compiles and passes the repository's
suite is run against the quick checks (most relevant first, stop at the first VIOLATION).

  tools/mechmut.py list                       print the mutants (id, file, line, operator) as JSON lines
  tools/mechmut.py run <outfile> [--workers N] [--stride K --offset J] [--only substr]
Scratch copies only (/tmp/mmN: repo worktree + copy of /verif); /repo and /verif/target are never touched.
"""
import json, os, re, subprocess, sys, time, shutil, hashlib
from concurrent.futures import ThreadPoolExecutor
HERE = os.path.dirname(os.path.abspath(__file__))
FILES = """unic-langid-impl/src/lib.rs unic-langid-impl/src/serde.rs unic-langid-impl/src/errors.rs unic-langid-impl/src/layout_table.rs
unic-langid-impl/src/likelysubtags/mod.rs unic-langid-impl/src/parser/mod.rs unic-langid-impl/src/parser/errors.rs
unic-langid-impl/src/subtags/language.rs unic-langid-impl/src/subtags/region.rs unic-langid-impl/src/subtags/script.rs unic-langid-impl/src/subtags/variant.rs
unic-locale-impl/src/lib.rs unic-locale-impl/src/errors.rs unic-locale-impl/src/parser/mod.rs unic-locale-impl/src/parser/errors.rs
unic-locale-impl/src/extensions/mod.rs unic-locale-impl/src/extensions/private.rs unic-locale-impl/src/extensions/transform.rs unic-locale-impl/src/extensions/unicode.rs
unic-langid-macros-impl/src/lib.rs unic-locale-macros-impl/src/lib.rs unic-langid/src/lib.rs unic-locale/src/lib.rs
unic-langid-macros/src/lib.rs unic-locale-macros/src/lib.rs""".split()

OPS = [  # (name, regex, replacement) applied once per match position
 ('le->lt', r' <= ', ' < '), ('lt->le', r'(?<=[\w\)\]]) < (?=[\w\(])', ' <= '), ('ge->gt', r' >= ', ' > '), ('gt->ge', r'(?<=[\w\)\]]) > (?=[\w\(])', ' >= '),
 ('eq->ne', r' == ', ' != '), ('ne->eq', r' != ', ' == '), ('and->or', r' && ', ' || '), ('or->and', r' \|\| ', ' && '),
 ('drop-not', r'(?<![\w!=<>])!(?=[\w\(])(?!\[)', ''), ('true->false', r'\btrue\b', 'false'), ('false->true', r'\bfalse\b', 'true'),
 ('drop-lower', r'\.to_ascii_lowercase\(\)', ''), ('drop-upper', r'\.to_ascii_uppercase\(\)', ''), ('drop-title', r'\.to_ascii_titlecase\(\)', ''),
 ('lower->upper', r'\.to_ascii_lowercase\(\)', '.to_ascii_uppercase()'),
 ('alpha->alnum', r'is_ascii_alphabetic', 'is_ascii_alphanumeric'), ('alnum->alpha', r'is_ascii_alphanumeric', 'is_ascii_alphabetic'),
 ('digit->alnum', r'is_ascii_digit', 'is_ascii_alphanumeric'), ('numeric->alnum', r'is_ascii_numeric', 'is_ascii_alphanumeric'),
 ('some->none', r'\bSome\((?:\w+)\)(?=[,;\s\)])', 'None'), ('is_none->is_some', r'\.is_none\(\)', '.is_some()'), ('is_some->is_none', r'\.is_some\(\)', '.is_none()'),
 ('is_empty-neg', r'(?<!!)(\b[\w\.]+)\.is_empty\(\)', r'!\1.is_empty()'),
 ('ok->err-idx', r'\bOk\((idx|i|index|pos)\)', r'Err(\1)'), ('err->ok-idx', r'\bErr\((idx|i|index|pos)\)', r'Ok(\1)'),
 ('all->any', r'\.all\(', '.any('), ('any->all', r'\.any\(', '.all('),
 ('plus->minus', r' \+ (?=[\w\(])', ' - '), ('minus->plus', r'(?<=[\w\)]) - (?=[\w\(])', ' + '),
 ('contains-neg', r'(?<![!\w])(\w[\w\.:]*)\.contains\(', r'!\1.contains('),
 ('dash->underscore', r"b'-'", "b'_'"), ('underscore->dash', r"b'_'", "b'-'"),
 ('u->t', r"b'u'", "b't'"), ('t->x', r"b't'", "b'x'"), ('x->u', r"b'x'", "b'u'"),
 ('dash-char', r"'-'", "'_'"),
 ('sort->noop', r'^\s*[\w\.]+\.sort(_unstable)?\(\);\s*$', ''), ('dedup->noop', r'^\s*[\w\.]+\.dedup\(\);\s*$', ''),
 ('stmt-delete', r'^\s*(self\.[\w\.]+ = [^;]+;|[\w\.]+\.(insert|push|remove|clear|retain)\([^;]*\);|seen_\w+ = true;)\s*$', ''),
 ('return-early-drop', r'^\s*return (Err\([^;]+\)|false|true|None);\s*$', ''),
 ('none->some-default', r'=> None,', '=> Some(Default::default()),'),
 ('map_or-flip', r'map_or\(true', 'map_or(false'), ('map_or-flip2', r'map_or\(false', 'map_or(true'),
 ('peek->next', r'\.peek\(\)', '.next()'),
 ('unwrap_or-flip', r'unwrap_or\(true\)', 'unwrap_or(false)'),
 ('first->last', r'\.first\(\)', '.last()'), ('min->max', r'\.min\(', '.max('),
 ('0..->1..', r'\[0\]', '[1]'), ('[1]->[0]', r'\[1\]', '[0]'), ('[1..]->[2..]', r'\[1\.\.\]', '[2..]'),
]
NUM = re.compile(r'(?<![\w\.\'"#])(\d+)(?![\w\'"\.]|\.\.=?\d)')
RANGE = re.compile(r'\((\d+)\.\.=(\d+)\)')

def code_lines(path, text):
    """yield (lineno, line) for lines that are code (not comments, attributes, docs, test modules)."""
    in_test = False
    for n, line in enumerate(text.split('\n')):
        s = line.strip()
        if s.startswith('#[test]') or s.startswith('#[cfg(test)]'): in_test = True
        if in_test: continue
        if not s or s.startswith('//') or s.startswith('#[') or s.startswith('#!') or s.startswith('use ') or s.startswith('pub use ') or s.startswith('mod ') or s.startswith('pub mod '): continue
        yield n, line

def mutants(repo='/repo'):
    out = []
    for f in FILES:
        p = f'{repo}/{f}'
        if not os.path.exists(p): continue
        text = open(p).read()
        for n, line in code_lines(p, text):
            code = line.split('//')[0] if '"' not in line else line
            seen = set()
            for name, rx, rep in OPS:
                for m in re.finditer(rx, code):
                    new = code[:m.start()] + m.expand(rep) + code[m.end():]
                    if new == code or new in seen: continue
                    seen.add(new); out.append({'file': f, 'line': n + 1, 'op': name, 'old': line, 'new': new})
            for m in NUM.finditer(code):
                v = int(m.group(1))
                for nv, nm in ((v + 1, 'num+1'), (v - 1, 'num-1')):
                    if nv < 0: continue
                    new = code[:m.start()] + str(nv) + code[m.end():]
                    if new in seen: continue
                    seen.add(new); out.append({'file': f, 'line': n + 1, 'op': nm, 'old': line, 'new': new})
            for m in RANGE.finditer(code):
                a, b = int(m.group(1)), int(m.group(2))
                for na, nb, nm in ((a + 1, b, 'range-lo+1'), (a - 1, b, 'range-lo-1'), (a, b + 1, 'range-hi+1'), (a, b - 1, 'range-hi-1')):
                    if na < 0: continue
                    new = code[:m.start()] + f'({na}..={nb})' + code[m.end():]
                    if new in seen: continue
                    seen.add(new); out.append({'file': f, 'line': n + 1, 'op': nm, 'old': line, 'new': new})
    lt = [m for m in out if 'layout_table' in m['file']]
    out = [m for m in out if 'layout_table' not in m['file']] + lt[::9]  # table constants: a sample is enough (C18 compares every entry)
    for i, m in enumerate(out):
        m['id'] = 'mm' + hashlib.sha1(f"{m['file']}:{m['line']}:{m['op']}:{m['new']}".encode()).hexdigest()[:8]
    return out

GENERIC = ['C15', 'C02', 'C03', 'C10', 'C05', 'C04', 'C09', 'C12', 'C13', 'C17', 'C11', 'C06', 'C07', 'C08', 'C18', 'C19', 'C16', 'C14', 'C01', 'C20']
REL = [
 ('unic-langid-impl/src/subtags', ['C15', 'C02', 'C05', 'C12', 'C17', 'C11']), ('unic-langid-impl/src/parser', ['C02', 'C13', 'C03', 'C09']),
 ('unic-langid-impl/src/likelysubtags', ['C06', 'C07', 'C08', 'C14', 'C18']), ('unic-langid-impl/src/serde.rs', ['C19']),
 ('unic-langid-impl/src/layout_table.rs', ['C18', 'C14']), ('unic-langid-impl/src/lib.rs', ['C10', 'C12', 'C11', 'C04', 'C17', 'C14', 'C07', 'C08', 'C02']),
 ('unic-locale-impl/src/extensions', ['C03', 'C10', 'C05', 'C09', 'C12', 'C17', 'C01']), ('unic-locale-impl/src/lib.rs', ['C13', 'C11', 'C03', 'C10', 'C17', 'C12', 'C07']),
 ('unic-locale-impl/src/parser', ['C03', 'C13']), ('macros', ['C16', 'C20']), ('unic-langid/src', ['C16', 'C20', 'C14']), ('unic-locale/src', ['C16', 'C20', 'C14']),
 ('errors.rs', ['C02', 'C03', 'C01']),
]
def order_for(f):
    first = []
    for k, ids in REL:
        if k in f: first += [i for i in ids if i not in first]
    return first + [i for i in GENERIC if i not in first]

def sh(cmd, env=None, cwd=None, timeout=None):
    try:
        return subprocess.run(cmd, shell=True, text=True, capture_output=True, env=env, cwd=cwd, timeout=timeout)
    except subprocess.TimeoutExpired as e:
        class R: returncode = 124; stdout = (e.stdout or b'').decode() if isinstance(e.stdout, bytes) else (e.stdout or ''); stderr = 'timeout'
        return R()

def worker(wid, jobs, outfile, threads):
    root = f'/tmp/mm{wid}'; repo = root + '/repo'; verif = root + '/verif'
    env = dict(os.environ, MRUN_ROOT=root, VERIF_THREADS=str(threads), RAYON_NUM_THREADS=str(threads), CARGO_BUILD_JOBS=str(threads), CARGO_NET_OFFLINE='true')
    r = sh(f'python3 {HERE}/mutmatrix.py --setup', env=env)
    if r.returncode: print('setup failed', r.stdout, r.stderr); return
    tenv = dict(env, CARGO_TARGET_DIR=root + '/target-tests')
    cenv = dict(env, VERIF_REPO=repo)
    for m in jobs:
        sh(f'git -C {repo} checkout -q -- .')
        p = f"{repo}/{m['file']}"; lines = open(p).read().split('\n')
        if lines[m['line'] - 1] != m['old']: continue
        lines[m['line'] - 1] = m['new']; open(p, 'w').write('\n'.join(lines))
        res = dict(m); t0 = time.time()
        r = sh('cargo test --workspace --no-fail-fast --offline', env=tenv, cwd=repo, timeout=900)
        if r.returncode != 0:
            res['status'] = 'stillborn' if ('error[' in r.stderr or 'error:' in r.stderr and 'test failed' not in r.stderr and 'could not compile' in r.stderr) else 'killed-by-suite'
            if r.returncode == 124: res['status'] = 'suite-timeout'
        else:
            res['status'] = 'survived-suite'; res['checks'] = {}
            for cid in order_for(m['file']):
                t = time.time()
                c = sh(f'./check {cid} quick', env=cenv, cwd=verif, timeout=3000)
                sigs = re.findall(r'signature: (.*)', c.stdout)[:3]
                res['checks'][cid] = {'rc': c.returncode, 's': round(time.time() - t), 'sigs': sigs}
                if c.returncode == 2: res['checks'][cid]['tail'] = ' / '.join(c.stdout.strip().splitlines()[-3:])[:300]
                if c.returncode == 1:
                    res['detected_by'] = cid; break
            else:
                res['detected_by'] = None
        res['seconds'] = round(time.time() - t0)
        with open(outfile, 'a') as f: f.write(json.dumps(res) + '\n')
        print(m['id'], m['file'], m['line'], m['op'], res['status'], res.get('detected_by'), flush=True)
    sh(f'git -C {repo} checkout -q -- .')

def main():
    a = sys.argv[1:]
    if a[0] == 'list':
        for m in mutants(): print(json.dumps(m))
        return
    outfile = a[1]; workers = 4; stride = 1; offset = 0; only = None
    if '--workers' in a: workers = int(a[a.index('--workers') + 1])
    if '--stride' in a: stride = int(a[a.index('--stride') + 1])
    if '--offset' in a: offset = int(a[a.index('--offset') + 1])
    if '--only' in a: only = a[a.index('--only') + 1]
    done = set()
    if os.path.exists(outfile):
        done = {json.loads(l)['id'] for l in open(outfile) if l.strip()}
    ms = [m for m in mutants() if (not only or only in m['file'])]
    ms = ms[offset::stride]
    ms = [m for m in ms if m['id'] not in done]
    print(len(ms), 'mutants to run', flush=True)
    parts = [ms[i::workers] for i in range(workers)]
    threads = max(2, 16 // workers)
    with ThreadPoolExecutor(workers) as ex:
        list(ex.map(lambda t: worker(t[0], t[1], outfile, threads), enumerate(parts)))
main()
