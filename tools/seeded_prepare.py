#!/usr/bin/env python3
"""Prepare a seeded-change round: one scratch worktree and one TASK.md per property under <root>.
  tools/seeded_prepare.py <root> [PROP ...]
The task text holds only the property's title / statement / quantifier and the summaries of changes
kept from earlier rounds (so that new ones differ); nothing else from /verif."""
import json, glob, os, subprocess, sys, collections
root = sys.argv[1]; only = [a for a in sys.argv[2:] if not a.startswith('--extra-prior=')]
extra = [a.split('=', 1)[1] for a in sys.argv[2:] if a.startswith('--extra-prior=')]
tpl = open(os.path.dirname(os.path.abspath(__file__)) + '/seeded_task_template.md').read()
prior = collections.defaultdict(list)
for m in sorted(glob.glob('/verif/seeded/*/meta.json')):
    j = json.load(open(m)); prior[j['breaks_property']].append(j['summary'] or '')
for e in extra:  # summaries of a round that is not (completely) under /verif/seeded yet
    for m in sorted(glob.glob(e + '/C*/out/m[0-9].json')):
        j = json.load(open(m))
        if j.get('summary') and j['summary'] not in prior[j['property']]: prior[j['property']].append(j['summary'])
for l in open('/verif/properties.jsonl'):
    p = json.loads(l); i = p['id']
    if only and i not in only: continue
    d = f'{root}/{i}'; os.makedirs(d + '/out', exist_ok=True)
    wt = d + '/wt'
    if not os.path.isdir(wt):
        r = subprocess.run(f'git -C /repo worktree add --detach {wt} HEAD', shell=True, text=True, capture_output=True)
        if r.returncode: sys.exit(r.stderr)
        if os.path.exists('/repo/Cargo.lock'): subprocess.run(f'cp /repo/Cargo.lock {wt}/Cargo.lock', shell=True)
    t = tpl
    for k, v in {'@WT@': wt, '@OUT@': d + '/out', '@ID@': i, '@TITLE@': p['title'], '@STATEMENT@': p['statement'],
                 '@QUANT@': p['quantifier']['text'], '@PRIOR@': '\n'.join('- ' + s[:400] for s in prior[i]) or '(none)'}.items():
        t = t.replace(k, v)
    open(d + '/TASK.md', 'w').write(t)
    print(i, wt)
