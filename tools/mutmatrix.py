#!/usr/bin/env python3
"""Run checks against seeded changes in a scratch copy (never touches /repo or /verif/target).

  tools/mutmatrix.py --setup                      create/refresh /tmp/mrun (repo worktree + copy of /verif)
  tools/mutmatrix.py <patch.diff> [ID ...]        apply the patch there, run ./check ID quick for each ID, undo
Prints one line per check: ID rc seconds [violation signatures].
"""
import json, os, re, subprocess, sys, time, shutil
ROOT = os.environ.get('MRUN_ROOT', '/tmp/mrun')
REPO = ROOT + '/repo'
VERIF = ROOT + '/verif'
ALL = ['C%02d' % i for i in range(1, 21)]

def sh(cmd, **kw):
    return subprocess.run(cmd, shell=True, text=True, capture_output=True, **kw)

def setup():
    os.makedirs(ROOT, exist_ok=True)
    if not os.path.isdir(REPO):
        r = sh(f'git -C /repo worktree add --detach {REPO} HEAD')
        if r.returncode: sys.exit(r.stderr)
    else:
        sh(f'git -C {REPO} checkout -q --detach && git -C {REPO} reset -q --hard $(git -C /repo rev-parse HEAD)')
    if os.path.exists('/repo/Cargo.lock') and not os.path.exists(REPO + '/Cargo.lock'):
        shutil.copy('/repo/Cargo.lock', REPO + '/Cargo.lock')
    os.makedirs(VERIF, exist_ok=True)
    sh(f"rsync -a --delete --exclude target --exclude .git --exclude replays --exclude evidence /verif/ {VERIF}/")
    p = VERIF + '/harness/Cargo.toml'
    s = open(p).read().replace('path = "/repo/', f'path = "{REPO}/')
    open(p, 'w').write(s)

def run(patch, ids):
    env = dict(os.environ, VERIF_REPO=REPO, CARGO_NET_OFFLINE='true')
    sh(f'git -C {REPO} checkout -q -- . && git -C {REPO} clean -qfd -e target')
    r = sh(f'git -C {REPO} apply {patch}')
    if r.returncode:
        print('PATCH DOES NOT APPLY:', r.stderr.strip()); return 2
    out = []
    try:
        for i in ids:
            t = time.time()
            r = subprocess.run(['./check', i, 'quick'], cwd=VERIF, env=env, text=True, capture_output=True)
            sigs = re.findall(r'signature: (.*)', r.stdout)
            tail = '' if r.returncode in (0, 1) else ' | ' + ' / '.join(r.stdout.strip().splitlines()[-3:])[:300]
            print(f'{i} rc={r.returncode} {time.time()-t:.0f}s {sigs[:4]}{tail}', flush=True)
            out.append((i, r.returncode, sigs))
    finally:
        sh(f'git -C {REPO} checkout -q -- . && git -C {REPO} clean -qfd -e target')
    return out

if __name__ == '__main__':
    if len(sys.argv) < 2: sys.exit(__doc__)
    if sys.argv[1] == '--setup':
        setup(); print('ok'); sys.exit(0)
    ids = [a.upper() for a in sys.argv[2:]] or ALL
    run(os.path.abspath(sys.argv[1]), ids)
