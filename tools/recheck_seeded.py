#!/usr/bin/env python3
"""Re-run the current quick checks against kept seeded changes (/verif/seeded/<name>/patch.diff) in a scratch
copy (tools/mutmatrix.py; never touches /repo or /verif/target) and bring meta.json up to date: the former
verdicts move to "history", the new ones become "verdicts" / "detected_by" / "detected_by_own_check".

  tools/recheck_seeded.py [--workers N] [--own] <name> ...       e.g. C07-dm3 C11-dm3
  --own: only the check of the property the change was written against
"""
import json, os, re, subprocess, sys
from concurrent.futures import ThreadPoolExecutor
HERE = os.path.dirname(os.path.abspath(__file__))
sys.path.insert(0, HERE)
RELATED = {
 'C01': ['C03'], 'C02': ['C13', 'C15'], 'C03': ['C05', 'C09'], 'C04': ['C05', 'C10'], 'C05': ['C03', 'C10'],
 'C06': ['C08', 'C18'], 'C07': ['C06'], 'C08': ['C06'], 'C09': ['C03'], 'C10': ['C04', 'C12'], 'C11': [],
 'C12': ['C10'], 'C13': ['C03', 'C16'], 'C14': ['C20'], 'C15': ['C02'], 'C16': [], 'C17': ['C05', 'C16'], 'C18': ['C06', 'C14'],
 'C19': [], 'C20': ['C14'],
}


def sh(cmd, env=None):
    return subprocess.run(cmd, shell=True, text=True, capture_output=True, env=env)


def worker(wid, names, own, threads, when):
    mrun = f'/tmp/rrun{wid}'
    env = dict(os.environ, MRUN_ROOT=mrun, VERIF_THREADS=str(threads))
    r = sh(f'python3 {HERE}/mutmatrix.py --setup', env=env)
    if r.returncode:
        print('setup failed', r.stdout, r.stderr); return
    for name in names:
        d = f'/verif/seeded/{name}'
        meta = json.load(open(f'{d}/meta.json'))
        prop = meta['breaks_property']
        ids = [prop] + ([] if own else RELATED.get(prop, []))
        r = sh(f'python3 {HERE}/mutmatrix.py {d}/patch.diff ' + ' '.join(ids), env=env)
        res = {}
        for line in r.stdout.splitlines():
            m = re.match(r'(C\d\d) rc=(\d+) (\d+)s (\[.*?\])', line)
            if m:
                try: sigs = eval(m.group(4))
                except Exception: sigs = []
                res[m.group(1)] = {'rc': int(m.group(2)), 'seconds': int(m.group(3)), 'signatures': sigs[:6]}
        if prop not in res:
            print(name, 'NO RESULT', r.stdout[-300:], r.stderr[-300:], flush=True); continue
        hist = meta.get('history', [])
        if meta.get('verdicts'):
            hist.append({'when': when, 'verdicts': {k: x['rc'] for k, x in meta['verdicts'].items()}})
        new = dict(meta.get('verdicts', {})); new.update(res)
        meta['verdicts'] = new
        meta['detected_by'] = sorted(k for k, x in new.items() if x['rc'] == 1)
        meta['detected_by_own_check'] = new.get(prop, {}).get('rc') == 1
        meta['history'] = hist
        json.dump(meta, open(f'{d}/meta.json', 'w'), indent=1, ensure_ascii=False)
        print(name, {k: x['rc'] for k, x in res.items()}, {k: x['signatures'][:2] for k, x in res.items() if x['rc'] == 1}, flush=True)
    sh(f'git -C {mrun}/repo checkout -q -- .')


def main():
    a = sys.argv[1:]
    workers = 2
    if '--workers' in a:
        i = a.index('--workers'); workers = int(a[i + 1]); del a[i:i + 2]
    own = '--own' in a
    when = 'run before the check was strengthened'
    names = [x for x in a if not x.startswith('--')]
    workers = max(1, min(workers, len(names)))
    parts = [names[i::workers] for i in range(workers)]
    threads = max(4, 16 // workers)
    with ThreadPoolExecutor(workers) as ex:
        list(ex.map(lambda t: worker(t[0], t[1], own, threads, when), enumerate(parts)))


main()
