#!/usr/bin/env python3
"""Copy every confirmed seeded change from /tmp/mut into /verif/seeded/<prop>-m<N>/ (patch.diff, demo, meta.json)
and print the detection matrix as a markdown table (for DESIGN.md section 7)."""
import glob, json, os, shutil
rows = []
for f in sorted(glob.glob('/tmp/mut/results/*.json')):
    r = json.load(open(f))
    if not r['verify'].get('confirmed'): 
        print('NOT CONFIRMED', f, r['verify']); continue
    prop, n = r['property'], r['mutant']
    r2 = os.path.basename(f).startswith('r2_')
    src = f"/tmp/mut{'2' if r2 else ''}/{prop}/out"
    name = f"{prop}-{'r2' if r2 else ''}m{n}"
    dst = f'/verif/seeded/{name}'
    os.makedirs(dst, exist_ok=True)
    shutil.copy(f'{src}/m{n}.diff', f'{dst}/patch.diff')
    shutil.copy(f'{src}/m{n}_demo.rs', f'{dst}/demo.rs')
    m = r['meta']
    caught = sorted(k for k, x in r.get('matrix', {}).items() if x['rc'] == 1)
    incon = sorted(k for k, x in r.get('matrix', {}).items() if x['rc'] not in (0, 1))
    prev = {}
    if os.path.exists(f'{dst}/meta.json'):
        prev = json.load(open(f'{dst}/meta.json'))
    meta = {
        'breaks_property': prop,
        'summary': m.get('summary'),
        'needs_to_manifest': m.get('needs'),
        'demonstration': {'file': 'demo.rs', 'copy_to': m.get('demo_dest'), 'command': m.get('demo_cmd'), **({'notes': m['demo_notes']} if 'demo_notes' in m else {})},
        'author': 'independent sub-agent given only the property text and a scratch worktree',
        'confirmed_by_me': {
            'how': 'tools/verify_mutant.py in a scratch worktree: patch applies to HEAD; cargo test --workspace --no-fail-fast --offline passes with it; demonstration passes without the patch and fails with it',
            'patch_applies': r['verify'].get('applies'), 'suite_with_patch_rc': r['verify'].get('suite_with'),
            'demo_without_patch_rc': r['verify'].get('demo_without'), 'demo_with_patch_rc': r['verify'].get('demo_with'),
        },
        'checks_run': 'every registered quick command (./check <ID> quick) against a scratch copy of the tree with the patch applied (tools/mutmatrix.py)',
        'detected_by_quick': caught,
        'inconclusive': incon,
        'signatures': {k: x['sigs'] for k, x in r.get('matrix', {}).items() if x['rc'] == 1},
    }
    for k in ('history', 'detected_after_strengthening'):
        if k in prev: meta[k] = prev[k]
    json.dump(meta, open(f'{dst}/meta.json', 'w'), indent=1, ensure_ascii=False)
    rows.append((prop, name, (m.get('summary') or '')[:140].replace('|', '/'), caught, prop in caught))
print('| change | breaks | what it needs | caught by (quick tier) |')
print('|---|---|---|---|')
for prop, name, summ, caught, own in rows:
    print(f"| {name} | {prop} | {summ} | {', '.join(caught) if caught else '**none**'}{'' if own else ' (own property check: **missed**)'} |")
print(len(rows), 'kept;', sum(1 for r in rows if r[4]), 'caught by own property check;', sum(1 for r in rows if r[3]), 'caught by some check')
