//! G7: histories of public mutator/getter calls, interpreted against the library and against a
//! plain set/map model (used by C10; end states feed C04, C05, C12, C17).

use crate::model::{self, LangModel, LocaleModel};
use proptest::collection::vec;
use proptest::prelude::*;
use proptest::strategy::SBoxedStrategy;
use serde_json::{json, Value};
use unic_locale::subtags::{Language, Region, Script, Variant};
use unic_locale::{LanguageIdentifier, Locale};

#[derive(Clone, Debug, PartialEq, Eq)]
pub enum Op {
    SetLanguage(String),
    ClearLanguage,
    SetScript(Option<String>),
    SetRegion(Option<String>),
    SetVariants(Vec<String>),
    ClearVariants,
    HasVariant(String),
    SetKeyword(String, Vec<String>),
    RemoveKeyword(String),
    ClearKeywords,
    Keyword(String),
    SetAttribute(String),
    RemoveAttribute(String),
    HasAttribute(String),
    ClearAttributes,
    SetTlang(String),
    ClearTlang,
    SetTfield(String, Vec<String>),
    RemoveTfield(String),
    ClearTfields,
    Tfield(String),
    AddTag(String),
    RemoveTag(String),
    HasTag(String),
    ClearTags,
    Maximize,
    Minimize,
    /// `*loc = loc.clone()`
    CloneSelf,
    /// `loc.clone_from(&parsed locale)` (Clone::clone_from may re-use the destination's allocations)
    CloneFrom(String),
    /// `loc.id.clone_from(&parsed language identifier)`
    CloneIdFrom(String),
    /// `loc.extensions.clone_from(&parsed locale's extensions)` (the map's own clone_from)
    CloneExtFrom(String),
    /// `clone_from` on each of the three extension lists separately
    CloneListsFrom(String),
    /// `loc.id = std::mem::take(&mut loc.id)` round trip through Default / mem::replace
    TakeId,
}

/// Result of one step, in a form comparable between library and model.
#[derive(Clone, Debug, PartialEq, Eq)]
pub enum Out {
    Unit,
    /// the argument text did not parse to a subtag / language id, so the call could not be made
    ArgRejected,
    Bool(bool),
    Res(Result<(), ()>),
    ResBool(Result<bool, ()>),
    ResList(Result<Vec<String>, ()>),
}

pub const ATTRS: &[&str] = &["aaa", "bbb", "abc", "BBB", "true", "True", "TRUE", "truest", "TRUE1", "xtrue", "abcdefgh", "foo1", "123", "ab", "abcdefghi", "a.b", "", "a\0b"];
pub const KEYS: &[&str] = &["ca", "nu", "1a", "CA", "aa", "a1", "c", "cal", "h0", "", " a"];
pub const TKEYS: &[&str] = &["h0", "k0", "H0", "a0", "0h", "ca", "h", "h00", ""];
pub const TAGS: &[&str] = &["a", "u", "x", "t", "aaa", "bbb", "BBB", "abcdefgh", "1", "abcdefghi", "", "a-b"];
pub const VARIANTS: &[&str] = &["valencia", "VALENCIA", "1abc", "macos", "12345", "abcde", "1ab2", "abcd", "abc", "toolongxxx"];
pub const LANGS: &[&str] = &["en", "fr", "und", "UND", "Und", "EN", "zh", "ar", "sr", "abcde", "abcdefgh", "ABCDEF", "haw", "abcd", "e"];
pub const SCRIPTS: &[&str] = &["Latn", "latn", "Cyrl", "Arab", "Hant", "Qqqq", "abc"];
pub const REGIONS: &[&str] = &["US", "us", "GB", "TW", "001", "RS", "1", "USA"];
pub const CLONE_SRC: &[&str] = &["de", "ca-valencia", "und", "sr-Cyrl-RS-zzzzz", "en-u-aaa-x-zz", "fr-t-en-h0-hybrid-u-ca-greg", "en-x-a-a", "ca-ES-1abc-macos-valencia-u-zzz-nu-latn", "en-Latn-US-valencia-t-en-k0-bbb-u-bbb-ca-aaa-x-bbb", "e", "en--US"];
pub const TLANGS: &[&str] = &["en", "en-US", "und", "fr-Latn-CA-valencia", "zh-hant", "de-1996-1901", "abcdefgh-Latn-001", "abcde", "haw-US", "undef-1abc", "e", "en-"];

fn sel(v: &'static [&'static str]) -> SBoxedStrategy<String> {
    proptest::sample::select(v.to_vec()).prop_map(|s| s.to_string()).sboxed()
}
/// mostly the small colliding pool, sometimes a generated argument of the right shape under a
/// random case mask (so the argument space is not limited to a hand-written list)
fn sel_or(v: &'static [&'static str], g: SBoxedStrategy<String>) -> SBoxedStrategy<String> {
    prop_oneof![
        6 => sel(v),
        1 => (g, any::<u64>()).prop_map(|(s, m)| s.chars().enumerate().map(|(i, c)| if (m >> (i % 64)) & 1 == 1 { c.to_ascii_uppercase() } else { c }).collect::<String>()),
    ]
    .sboxed()
}
fn attr() -> SBoxedStrategy<String> {
    sel_or(ATTRS, crate::gen::s_value())
}
fn vals() -> SBoxedStrategy<Vec<String>> {
    vec(attr(), 0..=3).sboxed()
}

pub fn s_op() -> SBoxedStrategy<Op> {
    let a = prop_oneof![
        2 => sel(LANGS).prop_map(Op::SetLanguage),
        1 => Just(Op::ClearLanguage),
        2 => proptest::option::weighted(0.8, sel(SCRIPTS)).prop_map(Op::SetScript),
        2 => proptest::option::weighted(0.8, sel(REGIONS)).prop_map(Op::SetRegion),
        3 => vec(sel_or(VARIANTS, crate::gen::s_variant()), 0..=4).prop_map(Op::SetVariants),
        1 => Just(Op::ClearVariants),
        2 => sel(VARIANTS).prop_map(Op::HasVariant),
        1 => Just(Op::Maximize),
        1 => Just(Op::Minimize),
    ]
    .sboxed();
    let e = prop_oneof![
        1 => Just(Op::CloneSelf),
        1 => Just(Op::TakeId),
        2 => prop_oneof![2 => sel(CLONE_SRC), 1 => crate::gen::s_ast().prop_map(|a| String::from_utf8_lossy(&a.render_plain()).to_string())].prop_map(Op::CloneFrom),
        2 => sel_or(TLANGS, crate::gen::s_langid_bytes().prop_map(|b| String::from_utf8_lossy(&b).to_string()).sboxed()).prop_map(Op::CloneIdFrom),
        2 => prop_oneof![2 => sel(CLONE_SRC), 1 => crate::gen::s_ast().prop_map(|a| String::from_utf8_lossy(&a.render_plain()).to_string())].prop_map(Op::CloneExtFrom),
        2 => prop_oneof![2 => sel(CLONE_SRC), 1 => crate::gen::s_ast().prop_map(|a| String::from_utf8_lossy(&a.render_plain()).to_string())].prop_map(Op::CloneListsFrom),
    ]
    .sboxed();
    let b = prop_oneof![
        4 => (sel_or(KEYS, crate::gen::s_key()), vals()).prop_map(|(k, v)| Op::SetKeyword(k, v)),
        1 => proptest::sample::select(crate::gen::REAL_KEYWORDS.to_vec()).prop_map(|(k, v)| Op::SetKeyword(k.to_string(), v.iter().map(|x| x.to_string()).collect())),
        3 => sel(KEYS).prop_map(Op::RemoveKeyword),
        1 => Just(Op::ClearKeywords),
        2 => sel(KEYS).prop_map(Op::Keyword),
        4 => attr().prop_map(Op::SetAttribute),
        3 => sel(ATTRS).prop_map(Op::RemoveAttribute),
        2 => sel(ATTRS).prop_map(Op::HasAttribute),
        1 => Just(Op::ClearAttributes),
    ]
    .sboxed();
    let c = prop_oneof![
        2 => sel_or(TLANGS, crate::gen::s_langid_bytes().prop_map(|b| String::from_utf8_lossy(&b).to_string()).sboxed()).prop_map(Op::SetTlang),
        1 => Just(Op::ClearTlang),
        4 => (sel_or(TKEYS, crate::gen::s_tkey()), vals()).prop_map(|(k, v)| Op::SetTfield(k, v)),
        1 => proptest::sample::select(crate::gen::REAL_TFIELDS.to_vec()).prop_map(|(k, v)| Op::SetTfield(k.to_string(), v.iter().map(|x| x.to_string()).collect())),
        3 => sel(TKEYS).prop_map(Op::RemoveTfield),
        1 => Just(Op::ClearTfields),
        2 => sel(TKEYS).prop_map(Op::Tfield),
    ]
    .sboxed();
    let d = prop_oneof![
        4 => sel_or(TAGS, crate::gen::s_private()).prop_map(Op::AddTag),
        3 => sel(TAGS).prop_map(Op::RemoveTag),
        2 => sel(TAGS).prop_map(Op::HasTag),
        1 => Just(Op::ClearTags),
    ]
    .sboxed();
    prop_oneof![15 => a, 20 => b, 13 => c, 10 => d, 4 => e].sboxed()
}

/// The fixed operation alphabet for exhaustive short sequences.
pub fn op_alphabet() -> Vec<Op> {
    let s = |x: &str| x.to_string();
    vec![
        Op::SetLanguage(s("fr")),
        Op::ClearLanguage,
        Op::SetScript(Some(s("latn"))),
        Op::SetRegion(None),
        Op::SetVariants(vec![s("valencia"), s("1abc"), s("VALENCIA")]),
        Op::SetVariants(vec![]),
        Op::HasVariant(s("1abc")),
        Op::SetKeyword(s("nu"), vec![s("bbb")]),
        Op::SetKeyword(s("ca"), vec![s("aaa"), s("true")]),
        Op::SetKeyword(s("CA"), vec![]),
        Op::SetKeyword(s("ca"), vec![s("ab")]),
        Op::RemoveKeyword(s("ca")),
        Op::Keyword(s("nu")),
        Op::SetAttribute(s("bbb")),
        Op::SetAttribute(s("AAA")),
        Op::SetAttribute(s("a.b")),
        Op::RemoveAttribute(s("bbb")),
        Op::HasAttribute(s("aaa")),
        Op::SetTlang(s("en-US")),
        Op::ClearTlang,
        Op::SetTfield(s("k0"), vec![s("bbb")]),
        Op::SetTfield(s("h0"), vec![s("true")]),
        Op::SetTfield(s("0h"), vec![s("aaa")]),
        Op::RemoveTfield(s("k0")),
        Op::AddTag(s("bbb")),
        Op::AddTag(s("a")),
        Op::AddTag(s("bbb")),
        Op::RemoveTag(s("bbb")),
        Op::HasTag(s("a")),
        Op::ClearTags,
        Op::CloneSelf,
        Op::CloneIdFrom(s("ca-valencia")),
        Op::CloneFrom(s("de-u-aaa-x-zz")),
        Op::CloneExtFrom(s("en-x-a-a")),
        Op::CloneListsFrom(s("fr-t-en-h0-hybrid-u-ca-greg")),
    ]
}

pub fn op_json(op: &Op) -> Value {
    json!(format!("{op:?}"))
}

// ------------------------------------------------------------------------------------------
// library interpreter

pub fn apply_lib(loc: &mut Locale, op: &Op) -> Out {
    match op {
        // the two public text -> Language routes alternate (FromStr / TryFrom<Option<&str>>),
        // decided by the argument so that the choice is a function of the case
        Op::SetLanguage(t) => match if t.len() % 2 == 0 { t.parse::<Language>() } else { <Language as std::convert::TryFrom<Option<&str>>>::try_from(Some(t.as_str())) } {
            Ok(l) => {
                loc.id.language = l;
                Out::Unit
            }
            Err(_) => Out::ArgRejected,
        },
        Op::ClearLanguage => {
            loc.id.language.clear();
            Out::Unit
        }
        Op::SetScript(None) => {
            loc.id.script = None;
            Out::Unit
        }
        Op::SetScript(Some(t)) => match t.parse::<Script>() {
            Ok(s) => {
                loc.id.script = Some(s);
                Out::Unit
            }
            Err(_) => Out::ArgRejected,
        },
        Op::SetRegion(None) => {
            loc.id.region = None;
            Out::Unit
        }
        Op::SetRegion(Some(t)) => match t.parse::<Region>() {
            Ok(s) => {
                loc.id.region = Some(s);
                Out::Unit
            }
            Err(_) => Out::ArgRejected,
        },
        Op::SetVariants(ts) => {
            let vs: Result<Vec<Variant>, _> = ts.iter().map(|t| t.parse::<Variant>()).collect();
            match vs {
                Ok(vs) => {
                    loc.id.set_variants(&vs);
                    Out::Unit
                }
                Err(_) => Out::ArgRejected,
            }
        }
        Op::ClearVariants => {
            loc.id.clear_variants();
            Out::Unit
        }
        Op::HasVariant(t) => match t.parse::<Variant>() {
            Ok(v) => Out::Bool(loc.id.has_variant(v)),
            Err(_) => Out::ArgRejected,
        },
        Op::SetKeyword(k, vs) => {
            let v: Vec<&str> = vs.iter().map(|s| s.as_str()).collect();
            r(loc.extensions.unicode.set_keyword(k.as_str(), &v))
        }
        Op::RemoveKeyword(k) => Out::ResBool(loc.extensions.unicode.remove_keyword(k.as_str()).map_err(|_| ())),
        Op::ClearKeywords => {
            loc.extensions.unicode.clear_keywords();
            Out::Unit
        }
        Op::Keyword(k) => Out::ResList(
            loc.extensions.unicode.keyword(k.as_str()).map(|i| i.map(|s| s.to_string()).collect()).map_err(|_| ()),
        ),
        Op::SetAttribute(a) => r(loc.extensions.unicode.set_attribute(a.as_str())),
        Op::RemoveAttribute(a) => Out::ResBool(loc.extensions.unicode.remove_attribute(a.as_str()).map_err(|_| ())),
        Op::HasAttribute(a) => Out::ResBool(loc.extensions.unicode.has_attribute(a.as_str()).map_err(|_| ())),
        Op::ClearAttributes => {
            loc.extensions.unicode.clear_attributes();
            Out::Unit
        }
        Op::SetTlang(t) => match t.parse::<LanguageIdentifier>() {
            Ok(li) => r(loc.extensions.transform.set_tlang(li)),
            Err(_) => Out::ArgRejected,
        },
        Op::ClearTlang => {
            loc.extensions.transform.clear_tlang();
            Out::Unit
        }
        Op::SetTfield(k, vs) => {
            let v: Vec<&str> = vs.iter().map(|s| s.as_str()).collect();
            r(loc.extensions.transform.set_tfield(k.as_str(), &v))
        }
        Op::RemoveTfield(k) => Out::ResBool(loc.extensions.transform.remove_tfield(k.as_str()).map_err(|_| ())),
        Op::ClearTfields => {
            loc.extensions.transform.clear_tfields();
            Out::Unit
        }
        Op::Tfield(k) => Out::ResList(
            loc.extensions.transform.tfield(k.as_str()).map(|i| i.map(|s| s.to_string()).collect()).map_err(|_| ()),
        ),
        Op::AddTag(t) => r(loc.extensions.private.add_tag(t.as_str())),
        Op::RemoveTag(t) => Out::ResBool(loc.extensions.private.remove_tag(t.as_str()).map_err(|_| ())),
        Op::HasTag(t) => Out::ResBool(loc.extensions.private.has_tag(t.as_str()).map_err(|_| ())),
        Op::ClearTags => {
            loc.extensions.private.clear_tags();
            Out::Unit
        }
        Op::Maximize => {
            #[cfg(feature = "likely")]
            {
                Out::Bool(loc.id.maximize())
            }
            #[cfg(not(feature = "likely"))]
            {
                Out::Unit
            }
        }
        Op::Minimize => {
            #[cfg(feature = "likely")]
            {
                Out::Bool(loc.id.minimize())
            }
            #[cfg(not(feature = "likely"))]
            {
                Out::Unit
            }
        }
        Op::CloneSelf => {
            let c = loc.clone();
            *loc = c;
            Out::Unit
        }
        Op::CloneFrom(t) => match Locale::from_bytes(t.as_bytes()) {
            Ok(o) => {
                loc.clone_from(&o);
                Out::Unit
            }
            Err(_) => Out::ArgRejected,
        },
        Op::CloneIdFrom(t) => match LanguageIdentifier::from_bytes(t.as_bytes()) {
            Ok(o) => {
                loc.id.clone_from(&o);
                Out::Unit
            }
            Err(_) => Out::ArgRejected,
        },
        Op::CloneExtFrom(t) => match Locale::from_bytes(t.as_bytes()) {
            Ok(o) => {
                loc.extensions.clone_from(&o.extensions);
                Out::Unit
            }
            Err(_) => Out::ArgRejected,
        },
        Op::CloneListsFrom(t) => match Locale::from_bytes(t.as_bytes()) {
            Ok(o) => {
                loc.extensions.private.clone_from(&o.extensions.private);
                loc.extensions.unicode.clone_from(&o.extensions.unicode);
                loc.extensions.transform.clone_from(&o.extensions.transform);
                Out::Unit
            }
            Err(_) => Out::ArgRejected,
        },
        Op::TakeId => {
            let id = std::mem::take(&mut loc.id);
            let old = std::mem::replace(&mut loc.id, id);
            if old == LanguageIdentifier::default() { Out::Unit } else { Out::Bool(false) }
        }
    }
}

/// the error type of the extension setters (LocaleError) is not nameable from outside the crate
fn r<E>(x: Result<(), E>) -> Out {
    Out::Res(x.map_err(|_| ()))
}

// ------------------------------------------------------------------------------------------
// model interpreter

fn norm_values(vs: &[String]) -> Result<Vec<String>, ()> {
    let mut out = vec![];
    for v in vs {
        if !model::is_attr(v.as_bytes()) {
            return Err(());
        }
        let l = model::lower(v.as_bytes());
        if l != "true" {
            out.push(l);
        }
    }
    Ok(out)
}

/// `likely`: reference for maximize/minimize; returns None where the property allows either
/// answer (then the library's answer is adopted after checking its constraints).
pub type LikelyFn<'a> = &'a dyn Fn(&LangModel, bool) -> Option<Option<LangModel>>;

pub fn apply_model(m: &mut LocaleModel, op: &Op, likely: Option<LikelyFn>, lib_after: Option<&LangModel>) -> Out {
    match op {
        Op::SetLanguage(t) => {
            if model::is_language(t.as_bytes()) {
                let l = model::lower(t.as_bytes());
                m.id.language = if l == "und" { None } else { Some(l) };
                Out::Unit
            } else {
                Out::ArgRejected
            }
        }
        Op::ClearLanguage => {
            m.id.language = None;
            Out::Unit
        }
        Op::SetScript(None) => {
            m.id.script = None;
            Out::Unit
        }
        Op::SetScript(Some(t)) => {
            if model::is_script(t.as_bytes()) {
                m.id.script = Some(model::title(t.as_bytes()));
                Out::Unit
            } else {
                Out::ArgRejected
            }
        }
        Op::SetRegion(None) => {
            m.id.region = None;
            Out::Unit
        }
        Op::SetRegion(Some(t)) => {
            if model::is_region(t.as_bytes()) {
                m.id.region = Some(model::upper(t.as_bytes()));
                Out::Unit
            } else {
                Out::ArgRejected
            }
        }
        Op::SetVariants(ts) => {
            if ts.iter().all(|t| model::is_variant(t.as_bytes())) {
                let mut v: Vec<String> = ts.iter().map(|t| model::lower(t.as_bytes())).collect();
                v.sort();
                v.dedup();
                m.id.variants = v;
                Out::Unit
            } else {
                Out::ArgRejected
            }
        }
        Op::ClearVariants => {
            m.id.variants.clear();
            Out::Unit
        }
        Op::HasVariant(t) => {
            if model::is_variant(t.as_bytes()) {
                Out::Bool(m.id.variants.contains(&model::lower(t.as_bytes())))
            } else {
                Out::ArgRejected
            }
        }
        Op::SetKeyword(k, vs) => {
            if !model::is_key(k.as_bytes()) {
                return Out::Res(Err(()));
            }
            match norm_values(vs) {
                Ok(v) => {
                    m.keywords.insert(model::lower(k.as_bytes()), v);
                    Out::Res(Ok(()))
                }
                Err(()) => Out::Res(Err(())),
            }
        }
        Op::RemoveKeyword(k) => {
            if !model::is_key(k.as_bytes()) {
                return Out::ResBool(Err(()));
            }
            Out::ResBool(Ok(m.keywords.remove(&model::lower(k.as_bytes())).is_some()))
        }
        Op::ClearKeywords => {
            m.keywords.clear();
            Out::Unit
        }
        Op::Keyword(k) => {
            if !model::is_key(k.as_bytes()) {
                return Out::ResList(Err(()));
            }
            Out::ResList(Ok(m.keywords.get(&model::lower(k.as_bytes())).cloned().unwrap_or_default()))
        }
        Op::SetAttribute(a) => {
            if !model::is_attr(a.as_bytes()) {
                return Out::Res(Err(()));
            }
            let l = model::lower(a.as_bytes());
            if !m.attrs.contains(&l) {
                m.attrs.push(l);
                m.attrs.sort();
            }
            Out::Res(Ok(()))
        }
        Op::RemoveAttribute(a) => {
            if !model::is_attr(a.as_bytes()) {
                return Out::ResBool(Err(()));
            }
            let l = model::lower(a.as_bytes());
            let had = m.attrs.contains(&l);
            m.attrs.retain(|x| *x != l);
            Out::ResBool(Ok(had))
        }
        Op::HasAttribute(a) => {
            if !model::is_attr(a.as_bytes()) {
                return Out::ResBool(Err(()));
            }
            Out::ResBool(Ok(m.attrs.contains(&model::lower(a.as_bytes()))))
        }
        Op::ClearAttributes => {
            m.attrs.clear();
            Out::Unit
        }
        Op::SetTlang(t) => match model::ref_langid(t.as_bytes()) {
            Ok(li) => {
                m.tlang = Some(li);
                Out::Res(Ok(()))
            }
            Err(_) => Out::ArgRejected,
        },
        Op::ClearTlang => {
            m.tlang = None;
            Out::Unit
        }
        Op::SetTfield(k, vs) => {
            if !model::is_tkey(k.as_bytes()) {
                return Out::Res(Err(()));
            }
            match norm_values(vs) {
                Ok(v) => {
                    m.tfields.insert(model::lower(k.as_bytes()), v);
                    Out::Res(Ok(()))
                }
                Err(()) => Out::Res(Err(())),
            }
        }
        Op::RemoveTfield(k) => {
            if !model::is_tkey(k.as_bytes()) {
                return Out::ResBool(Err(()));
            }
            Out::ResBool(Ok(m.tfields.remove(&model::lower(k.as_bytes())).is_some()))
        }
        Op::ClearTfields => {
            m.tfields.clear();
            Out::Unit
        }
        Op::Tfield(k) => {
            if !model::is_tkey(k.as_bytes()) {
                return Out::ResList(Err(()));
            }
            Out::ResList(Ok(m.tfields.get(&model::lower(k.as_bytes())).cloned().unwrap_or_default()))
        }
        Op::AddTag(t) => {
            if !model::is_private(t.as_bytes()) {
                return Out::Res(Err(()));
            }
            m.private.push(model::lower(t.as_bytes()));
            m.private.sort();
            Out::Res(Ok(()))
        }
        Op::RemoveTag(t) => {
            if !model::is_private(t.as_bytes()) {
                return Out::ResBool(Err(()));
            }
            let l = model::lower(t.as_bytes());
            if let Some(i) = m.private.iter().position(|x| *x == l) {
                m.private.remove(i);
                Out::ResBool(Ok(true))
            } else {
                Out::ResBool(Ok(false))
            }
        }
        Op::HasTag(t) => {
            if !model::is_private(t.as_bytes()) {
                return Out::ResBool(Err(()));
            }
            Out::ResBool(Ok(m.private.contains(&model::lower(t.as_bytes()))))
        }
        Op::ClearTags => {
            m.private.clear();
            Out::Unit
        }
        Op::CloneSelf | Op::TakeId => Out::Unit,
        // the source texts come from well-formed generators / a fixed pool: must-accept or must-reject
        Op::CloneFrom(t) => match model::ref_locale(t.as_bytes()) {
            model::Zone::MustAccept(m2, _) => {
                *m = m2.without_true();
                Out::Unit
            }
            _ => Out::ArgRejected,
        },
        Op::CloneIdFrom(t) => match model::ref_langid(t.as_bytes()) {
            Ok(li) => {
                m.id = li;
                Out::Unit
            }
            Err(_) => Out::ArgRejected,
        },
        Op::CloneExtFrom(t) | Op::CloneListsFrom(t) => match model::ref_locale(t.as_bytes()) {
            model::Zone::MustAccept(m2, _) => {
                let id = std::mem::take(&mut m.id);
                *m = m2.without_true();
                m.id = id;
                Out::Unit
            }
            _ => Out::ArgRejected,
        },
        Op::Maximize | Op::Minimize => {
            let Some(f) = likely else { return Out::Unit };
            match f(&m.id, matches!(op, Op::Maximize)) {
                Some(Some(new)) => {
                    let changed = new.language != m.id.language || new.script != m.id.script || new.region != m.id.region;
                    m.id.language = new.language;
                    m.id.script = new.script;
                    m.id.region = new.region;
                    let _ = changed;
                    Out::Bool(true)
                }
                Some(None) => Out::Bool(false),
                None => {
                    // either answer allowed: adopt the library's
                    if let Some(la) = lib_after {
                        let changed = la.language != m.id.language || la.script != m.id.script || la.region != m.id.region;
                        m.id.language = la.language.clone();
                        m.id.script = la.script.clone();
                        m.id.region = la.region.clone();
                        Out::Bool(changed)
                    } else {
                        Out::Bool(false)
                    }
                }
            }
        }
    }
}

pub fn is_mutation(op: &Op) -> bool {
    !matches!(op, Op::HasVariant(_) | Op::Keyword(_) | Op::HasAttribute(_) | Op::Tfield(_) | Op::HasTag(_))
}

/// which collection an op touches (for the non-triviality rule of C10)
pub fn collection(op: &Op) -> u8 {
    match op {
        Op::SetVariants(_) | Op::ClearVariants | Op::HasVariant(_) => 1,
        Op::SetKeyword(..) | Op::RemoveKeyword(_) | Op::ClearKeywords | Op::Keyword(_) => 2,
        Op::SetAttribute(_) | Op::RemoveAttribute(_) | Op::HasAttribute(_) | Op::ClearAttributes => 3,
        Op::SetTfield(..) | Op::RemoveTfield(_) | Op::ClearTfields | Op::Tfield(_) => 4,
        Op::AddTag(_) | Op::RemoveTag(_) | Op::HasTag(_) | Op::ClearTags => 5,
        _ => 0,
    }
}

// ------------------------------------------------------------------------------------------
// (de)serialisation of histories for replay files

pub fn op_to_json(op: &Op) -> Value {
    let (name, a, v): (&str, Option<String>, Option<Vec<String>>) = match op {
        Op::SetLanguage(t) => ("SetLanguage", Some(t.clone()), None),
        Op::ClearLanguage => ("ClearLanguage", None, None),
        Op::SetScript(t) => ("SetScript", t.clone(), None),
        Op::SetRegion(t) => ("SetRegion", t.clone(), None),
        Op::SetVariants(v) => ("SetVariants", None, Some(v.clone())),
        Op::ClearVariants => ("ClearVariants", None, None),
        Op::HasVariant(t) => ("HasVariant", Some(t.clone()), None),
        Op::SetKeyword(k, v) => ("SetKeyword", Some(k.clone()), Some(v.clone())),
        Op::RemoveKeyword(k) => ("RemoveKeyword", Some(k.clone()), None),
        Op::ClearKeywords => ("ClearKeywords", None, None),
        Op::Keyword(k) => ("Keyword", Some(k.clone()), None),
        Op::SetAttribute(k) => ("SetAttribute", Some(k.clone()), None),
        Op::RemoveAttribute(k) => ("RemoveAttribute", Some(k.clone()), None),
        Op::HasAttribute(k) => ("HasAttribute", Some(k.clone()), None),
        Op::ClearAttributes => ("ClearAttributes", None, None),
        Op::SetTlang(k) => ("SetTlang", Some(k.clone()), None),
        Op::ClearTlang => ("ClearTlang", None, None),
        Op::SetTfield(k, v) => ("SetTfield", Some(k.clone()), Some(v.clone())),
        Op::RemoveTfield(k) => ("RemoveTfield", Some(k.clone()), None),
        Op::ClearTfields => ("ClearTfields", None, None),
        Op::Tfield(k) => ("Tfield", Some(k.clone()), None),
        Op::AddTag(k) => ("AddTag", Some(k.clone()), None),
        Op::RemoveTag(k) => ("RemoveTag", Some(k.clone()), None),
        Op::HasTag(k) => ("HasTag", Some(k.clone()), None),
        Op::ClearTags => ("ClearTags", None, None),
        Op::Maximize => ("Maximize", None, None),
        Op::Minimize => ("Minimize", None, None),
        Op::CloneSelf => ("CloneSelf", None, None),
        Op::TakeId => ("TakeId", None, None),
        Op::CloneFrom(k) => ("CloneFrom", Some(k.clone()), None),
        Op::CloneIdFrom(k) => ("CloneIdFrom", Some(k.clone()), None),
        Op::CloneExtFrom(k) => ("CloneExtFrom", Some(k.clone()), None),
        Op::CloneListsFrom(k) => ("CloneListsFrom", Some(k.clone()), None),
    };
    json!({"op": name, "a": a, "v": v})
}

pub fn op_from_json(j: &Value) -> Option<Op> {
    let a = || j["a"].as_str().map(|s| s.to_string());
    let v = || -> Vec<String> {
        j["v"].as_array().map(|x| x.iter().filter_map(|e| e.as_str().map(|s| s.to_string())).collect()).unwrap_or_default()
    };
    Some(match j["op"].as_str()? {
        "SetLanguage" => Op::SetLanguage(a()?),
        "ClearLanguage" => Op::ClearLanguage,
        "SetScript" => Op::SetScript(a()),
        "SetRegion" => Op::SetRegion(a()),
        "SetVariants" => Op::SetVariants(v()),
        "ClearVariants" => Op::ClearVariants,
        "HasVariant" => Op::HasVariant(a()?),
        "SetKeyword" => Op::SetKeyword(a()?, v()),
        "RemoveKeyword" => Op::RemoveKeyword(a()?),
        "ClearKeywords" => Op::ClearKeywords,
        "Keyword" => Op::Keyword(a()?),
        "SetAttribute" => Op::SetAttribute(a()?),
        "RemoveAttribute" => Op::RemoveAttribute(a()?),
        "HasAttribute" => Op::HasAttribute(a()?),
        "ClearAttributes" => Op::ClearAttributes,
        "SetTlang" => Op::SetTlang(a()?),
        "ClearTlang" => Op::ClearTlang,
        "SetTfield" => Op::SetTfield(a()?, v()),
        "RemoveTfield" => Op::RemoveTfield(a()?),
        "ClearTfields" => Op::ClearTfields,
        "Tfield" => Op::Tfield(a()?),
        "AddTag" => Op::AddTag(a()?),
        "RemoveTag" => Op::RemoveTag(a()?),
        "HasTag" => Op::HasTag(a()?),
        "ClearTags" => Op::ClearTags,
        "Maximize" => Op::Maximize,
        "Minimize" => Op::Minimize,
        "CloneSelf" => Op::CloneSelf,
        "TakeId" => Op::TakeId,
        "CloneFrom" => Op::CloneFrom(a()?),
        "CloneIdFrom" => Op::CloneIdFrom(a()?),
        "CloneExtFrom" => Op::CloneExtFrom(a()?),
        "CloneListsFrom" => Op::CloneListsFrom(a()?),
        _ => return None,
    })
}

pub fn history_case(start: &[u8], ops: &[Op]) -> Value {
    json!({"kind": "ops", "start": String::from_utf8_lossy(start), "ops": ops.iter().map(op_to_json).collect::<Vec<_>>(),
           "readable": ops.iter().map(|o| format!("{o:?}")).collect::<Vec<_>>()})
}

pub fn history_from_case(c: &Value) -> Option<(Vec<u8>, Vec<Op>)> {
    let start = c["start"].as_str()?.as_bytes().to_vec();
    let ops = c["ops"].as_array()?.iter().filter_map(op_from_json).collect();
    Some((start, ops))
}

pub fn op_name(op: &Op) -> &'static str {
    match op {
        Op::SetLanguage(_) => "SetLanguage",
        Op::ClearLanguage => "ClearLanguage",
        Op::SetScript(_) => "SetScript",
        Op::SetRegion(_) => "SetRegion",
        Op::SetVariants(_) => "SetVariants",
        Op::ClearVariants => "ClearVariants",
        Op::HasVariant(_) => "HasVariant",
        Op::SetKeyword(..) => "SetKeyword",
        Op::RemoveKeyword(_) => "RemoveKeyword",
        Op::ClearKeywords => "ClearKeywords",
        Op::Keyword(_) => "Keyword",
        Op::SetAttribute(_) => "SetAttribute",
        Op::RemoveAttribute(_) => "RemoveAttribute",
        Op::HasAttribute(_) => "HasAttribute",
        Op::ClearAttributes => "ClearAttributes",
        Op::SetTlang(_) => "SetTlang",
        Op::ClearTlang => "ClearTlang",
        Op::SetTfield(..) => "SetTfield",
        Op::RemoveTfield(_) => "RemoveTfield",
        Op::ClearTfields => "ClearTfields",
        Op::Tfield(_) => "Tfield",
        Op::AddTag(_) => "AddTag",
        Op::RemoveTag(_) => "RemoveTag",
        Op::HasTag(_) => "HasTag",
        Op::ClearTags => "ClearTags",
        Op::Maximize => "Maximize",
        Op::Minimize => "Minimize",
        Op::CloneSelf => "CloneSelf",
        Op::TakeId => "TakeId",
        Op::CloneFrom(_) => "CloneFrom",
        Op::CloneIdFrom(_) => "CloneIdFrom",
        Op::CloneExtFrom(_) => "CloneExtFrom",
        Op::CloneListsFrom(_) => "CloneListsFrom",
    }
}
