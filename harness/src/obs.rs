//! Library value -> model value, through public getters only.

use crate::model::{LangModel, LocaleModel};
use std::collections::BTreeMap;
use unic_locale::extensions::ExtensionsMap;
use unic_locale::{LanguageIdentifier, Locale};

pub fn obs_langid(li: &LanguageIdentifier) -> LangModel {
    LangModel {
        language: if li.language.is_empty() { None } else { Some(li.language.as_str().to_string()) },
        script: li.script.as_ref().map(|s| s.as_str().to_string()),
        region: li.region.as_ref().map(|s| s.as_str().to_string()),
        // order kept as the iterator yields it (sortedness is checked by comparing with the model)
        variants: li.variants().map(|v| v.as_str().to_string()).collect(),
    }
}

pub fn obs_ext(e: &ExtensionsMap, id: LangModel) -> LocaleModel {
    let mut keywords = BTreeMap::new();
    let keys: Vec<String> = e.unicode.keyword_keys().map(|s| s.to_string()).collect();
    for k in &keys {
        let v: Vec<String> = match e.unicode.keyword(k.as_str()) {
            Ok(it) => it.map(|s| s.to_string()).collect(),
            Err(_) => vec!["<getter error>".to_string()],
        };
        keywords.insert(k.clone(), v);
    }
    let mut tfields = BTreeMap::new();
    let tkeys: Vec<String> = e.transform.tfield_keys().map(|s| s.to_string()).collect();
    for k in &tkeys {
        let v: Vec<String> = match e.transform.tfield(k.as_str()) {
            Ok(it) => it.map(|s| s.to_string()).collect(),
            Err(_) => vec!["<getter error>".to_string()],
        };
        tfields.insert(k.clone(), v);
    }
    LocaleModel {
        id,
        attrs: e.unicode.attributes().map(|s| s.to_string()).collect(),
        keywords,
        tlang: e.transform.tlang().map(obs_langid),
        tfields,
        private: e.private.tags().map(|s| s.to_string()).collect(),
    }
}

pub fn obs_locale(l: &Locale) -> LocaleModel {
    obs_ext(&l.extensions, obs_langid(&l.id))
}

/// key order as the getters yield it (to check "sorted by key")
pub fn key_orders(l: &ExtensionsMap) -> (Vec<String>, Vec<String>) {
    (
        l.unicode.keyword_keys().map(|s| s.to_string()).collect(),
        l.transform.tfield_keys().map(|s| s.to_string()).collect(),
    )
}
