//! Runner: configuration, mergeable statistics, panic capture, deterministic per-case RNG for
//! proptest strategies (with manual ValueTree shrinking pinned to one signature), delta
//! debugging of byte cases, evidence / replay / known-findings handling.

use proptest::strategy::{Strategy, ValueTree};
use proptest::test_runner::{Config, RngAlgorithm, TestRng, TestRunner};
use rayon::prelude::*;
use serde_json::{json, Value};
use std::cell::RefCell;
use std::collections::{BTreeMap, HashSet};
use std::path::PathBuf;
use std::time::Instant;

#[derive(Clone, Copy, PartialEq, Eq, Debug)]
pub enum Tier {
    Quick,
    Thorough,
}

#[derive(Clone, Debug)]
pub struct Cfg {
    pub prop: String,
    pub tier: Tier,
    pub seed: u64,
    pub verif: PathBuf,
    pub repo: PathBuf,
    pub start: Instant,
}

impl Cfg {
    pub fn pick<T>(&self, quick: T, thorough: T) -> T {
        if self.tier == Tier::Quick {
            quick
        } else {
            thorough
        }
    }
    pub fn tier_name(&self) -> &'static str {
        self.pick("quick", "thorough")
    }
}

// ------------------------------------------------------------------------------------------
// hashing (deterministic, no RandomState)

pub fn mix(mut x: u64) -> u64 {
    x = x.wrapping_add(0x9E37_79B9_7F4A_7C15);
    x = (x ^ (x >> 30)).wrapping_mul(0xBF58_476D_1CE4_E5B9);
    x = (x ^ (x >> 27)).wrapping_mul(0x94D0_49BB_1331_11EB);
    x ^ (x >> 31)
}
pub fn hash_bytes(b: &[u8]) -> u64 {
    let mut h: u64 = 0xcbf2_9ce4_8422_2325;
    for c in b {
        h ^= *c as u64;
        h = h.wrapping_mul(0x0000_0100_0000_01B3);
    }
    mix(h ^ (b.len() as u64) << 56)
}
pub fn hash_str(s: &str) -> u64 {
    hash_bytes(s.as_bytes())
}
pub fn salt(s: &str) -> u64 {
    hash_bytes(s.as_bytes())
}

// ------------------------------------------------------------------------------------------
// panic capture

#[derive(Clone, Debug)]
pub struct PanicInfo {
    pub file: String,
    pub line: u32,
    pub msg: String,
}

thread_local! {
    static LAST_PANIC: RefCell<Option<PanicInfo>> = const { RefCell::new(None) };
    static IN_GUARD: RefCell<u32> = const { RefCell::new(0) };
}

pub fn install_panic_hook() {
    let default = std::panic::take_hook();
    std::panic::set_hook(Box::new(move |info| {
        let guarded = IN_GUARD.with(|g| *g.borrow() > 0);
        let msg = if let Some(s) = info.payload().downcast_ref::<&str>() {
            s.to_string()
        } else if let Some(s) = info.payload().downcast_ref::<String>() {
            s.clone()
        } else {
            "<non-string panic payload>".to_string()
        };
        let (file, line) = info
            .location()
            .map(|l| (l.file().to_string(), l.line()))
            .unwrap_or(("<unknown>".into(), 0));
        if guarded {
            LAST_PANIC.with(|p| *p.borrow_mut() = Some(PanicInfo { file, line, msg }));
        } else {
            default(info);
        }
    }));
}

/// library panics caught in this process (a panic costs microseconds and takes a process-wide
/// lock in the unwinder: a change that panics on a large share of the inputs would otherwise turn
/// a run of seconds into one that hits the driver's wall-clock cap and ends "inconclusive")
static PANICS: std::sync::atomic::AtomicU64 = std::sync::atomic::AtomicU64::new(0);

pub fn panic_budget() -> u64 {
    std::env::var("VERIF_PANIC_BUDGET").ok().and_then(|v| v.parse().ok()).unwrap_or(150_000)
}

/// true once more library panics were caught than the budget allows: case loops stop generating
/// (the run already holds the panics as failures wherever the property is about them; a check
/// that does not judge panics ends inconclusive, see `finish`)
pub fn over_panic_budget() -> bool {
    static LIMIT: std::sync::OnceLock<u64> = std::sync::OnceLock::new();
    PANICS.load(std::sync::atomic::Ordering::Relaxed) > *LIMIT.get_or_init(panic_budget)
}

/// Run `f`; a panic becomes Err(PanicInfo).
pub fn guard<T>(f: impl FnOnce() -> T) -> Result<T, PanicInfo> {
    IN_GUARD.with(|g| *g.borrow_mut() += 1);
    let r = std::panic::catch_unwind(std::panic::AssertUnwindSafe(f));
    IN_GUARD.with(|g| *g.borrow_mut() -= 1);
    match r {
        Ok(v) => Ok(v),
        Err(_) => {
            PANICS.fetch_add(1, std::sync::atomic::Ordering::Relaxed);
            Err(LAST_PANIC.with(|p| p.borrow_mut().take()).unwrap_or(PanicInfo {
                file: "<unknown>".into(),
                line: 0,
            msg: "<panic>".into(),
            }))
        }
    }
}

/// Safety net around one whole case: a library panic that escapes the check's own guarded calls
/// (a comparison, a getter, `Display`, a hash ...) becomes a failure of that case instead of
/// ending the process (which the driver could only report as inconclusive).
pub fn netted(st: &mut Stats, case: impl FnOnce() -> Value, size: usize, body: impl FnOnce(&mut Stats)) {
    let r = guard(|| body(&mut *st));
    if let Err(p) = r {
        st.fail(format!("uncaught-{}", panic_sig(&p)), case(), size, format!("the library panicked in a call the check makes outside its guarded entry points: {p:?}"));
    }
}

pub fn panic_sig(p: &PanicInfo) -> String {
    // file path relative to the repository, message prefix; no line number (robust to edits)
    let f = p.file.trim_start_matches("/repo/");
    let m: String = p.msg.chars().take(48).collect();
    format!("panic@{f}:{m}")
}

// ------------------------------------------------------------------------------------------
// statistics

#[derive(Clone, Debug)]
pub struct Failure {
    pub sig: String,
    pub case: Value,
    pub detail: String,
    pub size: usize,
}

/// How a non-trivial case enters `distinct_nontrivial`: `Enum` = member of an enumeration
/// whose cases are distinct by construction (and not contained in an earlier enumeration);
/// `Hash` = generated, distinctness measured with a hash set; `No` = already covered by an
/// earlier enumeration of the same run, not counted again.
#[derive(Clone, Copy, PartialEq, Eq, Debug)]
pub enum Count {
    Enum,
    Hash,
    No,
}

const MAX_SAMPLES: usize = 8;
const HASH_CAP: usize = 5_000_000;

#[derive(Default)]
pub struct Stats {
    pub evals: u64,
    pub nt_enum: u64,
    pub nt_hashes: HashSet<u64>,
    pub nt_overflow: u64,
    pub classes: BTreeMap<String, u64>,
    pub samples: BTreeMap<u64, Value>,
    pub first_samples: Vec<Value>,
    pub failures: BTreeMap<String, Failure>,
    pub fail_counts: BTreeMap<String, u64>,
    pub fail_total: u64,
    pub oracle_errors: Vec<String>,
    pub exhaustive_subspaces: Vec<Value>,
    pub extra: BTreeMap<String, Value>,
    pub libfuzzer_execs: u64,
}

impl Stats {
    pub fn new() -> Self {
        Self::default()
    }
    #[inline]
    pub fn eval(&mut self) {
        self.evals += 1;
    }
    #[inline]
    pub fn class(&mut self, name: &str) {
        if let Some(c) = self.classes.get_mut(name) {
            *c += 1;
        } else {
            self.classes.insert(name.to_string(), 1);
        }
    }
    pub fn class_n(&mut self, name: &str, n: u64) {
        *self.classes.entry(name.to_string()).or_insert(0) += n;
    }
    fn sample(&mut self, h: u64, case: impl FnOnce() -> Value) {
        if self.samples.len() < MAX_SAMPLES {
            self.samples.entry(h).or_insert_with(case);
        } else {
            let max = *self.samples.keys().next_back().unwrap();
            if h < max && !self.samples.contains_key(&h) {
                self.samples.remove(&max);
                self.samples.insert(h, case());
            }
        }
    }
    /// non-trivial case of an enumeration whose cases are distinct by construction
    #[inline]
    pub fn nontrivial_enum(&mut self, h: u64, case: impl FnOnce() -> Value) {
        self.nt_enum += 1;
        self.sample(h, case);
    }
    /// non-trivial case of a random generator: distinctness measured with a hash set
    #[inline]
    pub fn nontrivial(&mut self, h: u64, case: impl FnOnce() -> Value) {
        if self.nt_hashes.len() < HASH_CAP {
            if self.nt_hashes.insert(h) {
                self.sample(h, case);
            }
        } else {
            self.nt_overflow += 1;
        }
    }
    /// count a non-trivial case according to where it came from
    #[inline]
    pub fn count(&mut self, mode: Count, h: u64, case: impl FnOnce() -> Value) {
        match mode {
            Count::Enum => self.nontrivial_enum(h, case),
            Count::Hash => self.nontrivial(h, case),
            Count::No => {}
        }
    }
    pub fn fail(&mut self, sig: impl Into<String>, case: Value, size: usize, detail: impl Into<String>) {
        let sig = sig.into();
        self.fail_total += 1;
        *self.fail_counts.entry(sig.clone()).or_insert(0) += 1;
        let f = Failure { sig: sig.clone(), case, detail: detail.into(), size };
        match self.failures.get(&sig) {
            Some(old) if (old.size, old.case.to_string()) <= (f.size, f.case.to_string()) => {}
            _ => {
                self.failures.insert(sig, f);
            }
        }
    }
    pub fn oracle_error(&mut self, s: String) {
        if self.oracle_errors.len() < 5 {
            self.oracle_errors.push(s);
        }
    }
    pub fn merge(mut self, o: Stats) -> Stats {
        self.evals += o.evals;
        self.fail_total += o.fail_total;
        self.nt_enum += o.nt_enum;
        self.nt_overflow += o.nt_overflow;
        self.libfuzzer_execs += o.libfuzzer_execs;
        if self.nt_hashes.len() < o.nt_hashes.len() {
            let mut big = o.nt_hashes;
            big.extend(self.nt_hashes.drain());
            self.nt_hashes = big;
        } else {
            self.nt_hashes.extend(o.nt_hashes);
        }
        for (k, v) in o.classes {
            *self.classes.entry(k).or_insert(0) += v;
        }
        for (h, v) in o.samples {
            self.sample(h, || v);
        }
        if self.first_samples.len() < 3 {
            for v in o.first_samples {
                if self.first_samples.len() < 3 {
                    self.first_samples.push(v);
                }
            }
        }
        for (sig, f) in o.failures {
            match self.failures.get(&sig) {
                Some(old) if (old.size, old.case.to_string()) <= (f.size, f.case.to_string()) => {}
                _ => {
                    self.failures.insert(sig, f);
                }
            }
        }
        for (k, v) in o.fail_counts {
            *self.fail_counts.entry(k).or_insert(0) += v;
        }
        for e in o.oracle_errors {
            self.oracle_error(e);
        }
        self.exhaustive_subspaces.extend(o.exhaustive_subspaces);
        for (k, v) in o.extra {
            self.extra.insert(k, v);
        }
        self
    }
    pub fn distinct_nontrivial(&self) -> u64 {
        self.nt_enum + self.nt_hashes.len() as u64
    }
    pub fn subspace(&mut self, name: &str, size: u64, exhaustive: bool) {
        self.exhaustive_subspaces
            .push(json!({"name": name, "cases": size, "exhaustive": exhaustive}));
    }
}

// ------------------------------------------------------------------------------------------
// case helpers

thread_local! {
    /// inputs that were evaluated on this thread right before the current case, on purpose (hidden-state
    /// phases): recorded in the case so that a replay can re-create the sequence
    static PREDECESSORS: RefCell<Vec<Vec<u8>>> = const { RefCell::new(Vec::new()) };
}

/// evaluate `body` with `preds` recorded as the inputs that deliberately preceded the case
pub fn with_predecessors<T>(preds: &[&[u8]], body: impl FnOnce() -> T) -> T {
    PREDECESSORS.with(|p| *p.borrow_mut() = preds.iter().map(|b| b.to_vec()).collect());
    let r = body();
    PREDECESSORS.with(|p| p.borrow_mut().clear());
    r
}

pub fn bytes_case(b: &[u8]) -> Value {
    let mut c = json!({"kind": "bytes", "text": String::from_utf8_lossy(b), "hex": hex(b)});
    PREDECESSORS.with(|p| {
        let p = p.borrow();
        if !p.is_empty() {
            c["after"] = Value::Array(p.iter().map(|x| json!({"hex": hex(x), "text": String::from_utf8_lossy(x)})).collect());
        }
    });
    c
}

/// the inputs a replay has to evaluate first (see `with_predecessors`); they are cases of the same kind
pub fn case_predecessors(c: &Value) -> Vec<Value> {
    let kind = c.get("kind").cloned().unwrap_or(json!("bytes"));
    c.get("after").and_then(|a| a.as_array()).map(|a| a.iter().map(|x| json!({"kind": kind, "hex": x["hex"], "text": x["text"]})).collect()).unwrap_or_default()
}

/// a bytes-like case of another kind (same fields), with the recorded predecessors
pub fn bytes_case_kind(kind: &str, b: &[u8]) -> Value {
    let mut c = bytes_case(b);
    c["kind"] = json!(kind);
    c
}
pub fn hex(b: &[u8]) -> String {
    b.iter().map(|c| format!("{c:02x}")).collect()
}
pub fn unhex(s: &str) -> Vec<u8> {
    (0..s.len() / 2)
        .map(|i| u8::from_str_radix(&s[2 * i..2 * i + 2], 16).unwrap_or(0))
        .collect()
}
pub fn case_bytes(v: &Value) -> Option<Vec<u8>> {
    if let Some(h) = v.get("hex").and_then(|h| h.as_str()) {
        Some(unhex(h))
    } else {
        v.get("text").and_then(|t| t.as_str()).map(|s| s.as_bytes().to_vec())
    }
}

// ------------------------------------------------------------------------------------------
// parallel enumeration over an index range

pub fn par_range(n: u64, f: impl Fn(u64, &mut Stats) + Sync + Send) -> Stats {
    let chunk: u64 = 8192;
    let chunks = n.div_ceil(chunk);
    (0..chunks)
        .into_par_iter()
        .fold(Stats::new, |mut st, c| {
            let lo = c * chunk;
            let hi = (lo + chunk).min(n);
            for i in lo..hi {
                if over_panic_budget() {
                    st.class_n("cases not run: library-panic budget used up", hi - i);
                    break;
                }
                f(i, &mut st);
            }
            st
        })
        .reduce(Stats::new, Stats::merge)
}

// ------------------------------------------------------------------------------------------
// proptest strategies: one deterministic RNG per case index, manual shrinking

pub fn case_rng(seed: u64, phase: u64, idx: u64) -> TestRng {
    let mut s = [0u8; 32];
    let a = mix(seed ^ mix(phase));
    let b = mix(a ^ mix(idx.wrapping_add(0x1234_5678)));
    let c = mix(b);
    let d = mix(c);
    s[0..8].copy_from_slice(&a.to_le_bytes());
    s[8..16].copy_from_slice(&b.to_le_bytes());
    s[16..24].copy_from_slice(&c.to_le_bytes());
    s[24..32].copy_from_slice(&d.to_le_bytes());
    TestRng::from_seed(RngAlgorithm::ChaCha, &s)
}

fn pt_config() -> Config {
    Config { failure_persistence: None, ..Config::default() }
}

/// Generate case `idx` of phase `phase` from `strat`.
pub fn gen_case<S: Strategy>(strat: &S, seed: u64, phase: u64, idx: u64) -> Option<S::Value> {
    let mut runner = TestRunner::new_with_rng(pt_config(), case_rng(seed, phase, idx));
    strat.new_tree(&mut runner).ok().map(|t| t.current())
}

/// Run `n` generated cases in parallel. `check` evaluates the oracle on a value and records
/// into the Stats it is given. A failing case is shrunk through proptest's ValueTree with the
/// failure signature pinned; only the shrunk case is kept (per signature the smallest).
pub fn run_strategy<S>(
    strat: &S,
    seed: u64,
    phase_name: &str,
    n: u64,
    check: impl Fn(&S::Value, &mut Stats) + Sync + Send,
) -> Stats
where
    S: Strategy + Sync,
    S::Value: Clone,
{
    let phase = salt(phase_name);
    let chunk: u64 = 512;
    let chunks = n.div_ceil(chunk);
    (0..chunks)
        .into_par_iter()
        .fold(Stats::new, |mut st, c| {
            let lo = c * chunk;
            let hi = (lo + chunk).min(n);
            for i in lo..hi {
                if over_panic_budget() {
                    st.class_n("cases not run: library-panic budget used up", hi - i);
                    break;
                }
                let mut runner = TestRunner::new_with_rng(pt_config(), case_rng(seed, phase, i));
                let Ok(tree) = strat.new_tree(&mut runner) else { continue };
                let before = st.fail_total;
                let value = tree.current();
                check(&value, &mut st);
                if st.fail_total == before {
                    continue;
                }
                // this case failed: find the signatures first seen here and shrink each (pinned)
                let mut probe = Stats::new();
                check(&value, &mut probe);
                let new_sigs: Vec<String> = probe
                    .fail_counts
                    .iter()
                    .filter(|(k, n)| st.fail_counts.get(*k) == Some(*n))
                    .map(|(k, _)| k.clone())
                    .collect();
                for sig in new_sigs.iter().take(3) {
                    let mut runner2 =
                        TestRunner::new_with_rng(pt_config(), case_rng(seed, phase, i));
                    let Ok(mut t2) = strat.new_tree(&mut runner2) else { continue };
                    let mut best: Option<Failure> = None;
                    let mut steps = 0;
                    'outer: loop {
                        if !t2.simplify() {
                            break;
                        }
                        loop {
                            steps += 1;
                            if steps > 4000 {
                                break 'outer;
                            }
                            let mut s2 = Stats::new();
                            check(&t2.current(), &mut s2);
                            if let Some(f) = s2.failures.remove(sig) {
                                best = Some(f);
                                break;
                            } else if !t2.complicate() {
                                break 'outer;
                            }
                        }
                    }
                    if let Some(f) = best {
                        st.failures.insert(sig.clone(), f);
                    }
                }
            }
            st
        })
        .reduce(Stats::new, Stats::merge)
}

// ------------------------------------------------------------------------------------------
// delta debugging for byte cases

/// Minimise `input` while `pred` (same oracle clause still fails) holds.
pub fn minimise_bytes(input: &[u8], pred: &dyn Fn(&[u8]) -> bool, budget: usize) -> Vec<u8> {
    let mut cur = input.to_vec();
    if !pred(&cur) {
        return cur;
    }
    let mut budget = budget;
    loop {
        let mut progress = false;
        // 1. drop tokens
        let toks: Vec<Vec<u8>> =
            cur.split(|c| *c == b'-' || *c == b'_').map(|t| t.to_vec()).collect();
        if toks.len() > 1 {
            for i in (0..toks.len()).rev() {
                let mut t2 = toks.clone();
                t2.remove(i);
                let cand = t2.join(&b'-');
                if budget == 0 {
                    return cur;
                }
                budget -= 1;
                if cand.len() < cur.len() && pred(&cand) {
                    cur = cand;
                    progress = true;
                    break;
                }
            }
            if progress {
                continue;
            }
        }
        // 2. drop single bytes
        for i in (0..cur.len()).rev() {
            let mut c2 = cur.clone();
            c2.remove(i);
            if budget == 0 {
                return cur;
            }
            budget -= 1;
            if pred(&c2) {
                cur = c2;
                progress = true;
                break;
            }
        }
        if progress {
            continue;
        }
        // 3. simplify bytes
        for i in 0..cur.len() {
            let b = cur[i];
            let cands: &[u8] = if b == b'_' {
                b"-"
            } else if b.is_ascii_uppercase() {
                &[b.to_ascii_lowercase(), b'a']
            } else if b.is_ascii_lowercase() && b != b'a' {
                b"a"
            } else if b.is_ascii_digit() && b != b'0' {
                b"0"
            } else {
                b""
            };
            for r in cands {
                if *r == b {
                    continue;
                }
                let mut c2 = cur.clone();
                c2[i] = *r;
                if budget == 0 {
                    return cur;
                }
                budget -= 1;
                if pred(&c2) {
                    cur = c2;
                    progress = true;
                    break;
                }
            }
        }
        if !progress || budget == 0 {
            break;
        }
    }
    cur
}

// ------------------------------------------------------------------------------------------
// known findings, replay files, evidence, exit code

#[derive(Clone, Debug)]
pub struct Known {
    pub properties: Vec<String>,
    pub signature: String,
    pub status: String,
    pub what: String,
}

pub fn load_known(cfg: &Cfg) -> Vec<Known> {
    let p = cfg.verif.join("known_findings.json");
    let Ok(s) = std::fs::read_to_string(&p) else { return vec![] };
    let Ok(v) = serde_json::from_str::<Value>(&s) else { return vec![] };
    let mut out = vec![];
    if let Some(a) = v.get("findings").and_then(|a| a.as_array()) {
        for e in a {
            // an entry names one property ("property") or several ("properties")
            let mut props: Vec<String> = e["properties"]
                .as_array()
                .map(|a| a.iter().filter_map(|x| x.as_str().map(|s| s.to_string())).collect())
                .unwrap_or_default();
            if let Some(p) = e["property"].as_str() {
                props.push(p.to_string());
            }
            out.push(Known {
                properties: props,
                signature: e["signature"].as_str().unwrap_or("").to_string(),
                status: e["status"].as_str().unwrap_or("").to_string(),
                what: e["what"].as_str().unwrap_or("").to_string(),
            });
        }
    }
    out
}

fn sanitize(s: &str) -> String {
    s.chars()
        .map(|c| if c.is_ascii_alphanumeric() { c } else { '_' })
        .take(60)
        .collect()
}

pub type ReplayFn = dyn Fn(&Value, &mut Stats) + Sync;

/// Write evidence, replay files, print VIOLATION / KNOWN-FINDING lines, return exit code.
pub fn finish(cfg: &Cfg, mut st: Stats, rule: &str, assumptions: &[&str], replay: &ReplayFn) -> i32 {
    let known = load_known(cfg);
    let mut violations = 0;
    let mut known_hits = 0;
    let mut lines: Vec<String> = vec![];
    let mut viol_json: Vec<Value> = vec![];
    let failures: Vec<Failure> = st.failures.values().cloned().collect();
    for mut f in failures {
        // minimise byte cases with the same oracle clause
        if f.case.get("kind").and_then(|k| k.as_str()) == Some("bytes") {
            if let Some(b) = case_bytes(&f.case) {
                let sig = f.sig.clone();
                let extra = f.case.clone();
                let pred = |x: &[u8]| {
                    let mut c = extra.clone();
                    c["hex"] = json!(hex(x));
                    c["text"] = json!(String::from_utf8_lossy(x));
                    let mut s = Stats::new();
                    replay(&c, &mut s);
                    s.failures.contains_key(&sig)
                };
                // failures that need a child process per evaluation (hang / process death) get a small budget
                let budget = if f.sig.starts_with("hang") || f.sig.contains("process-death") { 12 } else if f.sig.starts_with("debug-assertions-build") { 60 } else { 20_000 };
                let m = minimise_bytes(&b, &pred, budget);
                if m != b {
                    let mut c = f.case.clone();
                    c["hex"] = json!(hex(&m));
                    c["text"] = json!(String::from_utf8_lossy(&m));
                    let mut s = Stats::new();
                    replay(&c, &mut s);
                    if let Some(nf) = s.failures.remove(&f.sig) {
                        f = nf;
                    }
                }
            }
        }
        let k = known
            .iter()
            .find(|k| k.properties.contains(&cfg.prop) && k.signature == f.sig && k.status == "open");
        if let Some(k) = k {
            known_hits += 1;
            lines.push(format!("KNOWN-FINDING: property={} {} [{}]", cfg.prop, k.what, f.sig));
            continue;
        }
        violations += 1;
        let dir = cfg.verif.join("replays").join(&cfg.prop);
        let _ = std::fs::create_dir_all(&dir);
        let name = format!("{}-{:08x}.json", sanitize(&f.sig), hash_str(&f.case.to_string()) as u32);
        let path = dir.join(name);
        let doc = json!({
            "property": cfg.prop,
            "signature": f.sig,
            "case": f.case,
            "detail": f.detail,
            "occurrences_this_run": st.fail_counts.get(&f.sig).copied().unwrap_or(1),
        });
        let _ = std::fs::write(&path, serde_json::to_string_pretty(&doc).unwrap());
        if violations <= 10 {
            lines.push(format!("VIOLATION property={} replay={}", cfg.prop, path.display()));
            lines.push(format!("  signature: {}", f.sig));
            lines.push(format!("  detail: {}", f.detail));
        }
        viol_json.push(json!({"signature": f.sig, "replay": path.display().to_string(), "detail": f.detail}));
    }

    let distinct = st.distinct_nontrivial();
    let mut samples: Vec<Value> = st.first_samples.clone();
    samples.extend(st.samples.values().cloned());
    if samples.is_empty() {
        samples.push(json!("<no non-trivial case generated>"));
    }
    let wall = cfg.start.elapsed().as_secs_f64();
    let all_exh = !st.exhaustive_subspaces.is_empty()
        && st.exhaustive_subspaces.iter().all(|s| s["exhaustive"] == json!(true))
        && st.nt_hashes.is_empty();
    let mut coverage = json!({
        "evaluations": st.evals + st.libfuzzer_execs,
        "harness_evaluations": st.evals,
        "libfuzzer_executions": st.libfuzzer_execs,
        "distinct_nontrivial": distinct,
        "distinct_nontrivial_is_lower_bound": st.nt_overflow > 0,
        "rule": rule,
        "samples": samples,
        "classes": st.classes,
        "subspaces": st.exhaustive_subspaces,
        "exhaustive": all_exh,
        "failure_signatures": st.fail_counts,
        "known_findings_hit": known_hits,
        "violation_list": viol_json,
    });
    for (k, v) in std::mem::take(&mut st.extra) {
        coverage[k] = v;
    }
    let ev = json!({
        "property_id": cfg.prop,
        "tier": cfg.tier_name(),
        "seed": cfg.seed,
        "level": "exploration",
        "coverage": coverage,
        "assumptions": assumptions,
        "wall_s": (wall * 1000.0).round() / 1000.0,
        "violations": violations,
    });
    let evdir = cfg.verif.join("evidence");
    let _ = std::fs::create_dir_all(&evdir);
    let _ = std::fs::write(
        evdir.join(format!("{}.json", cfg.prop)),
        serde_json::to_string_pretty(&ev).unwrap() + "\n",
    );

    for l in &lines {
        println!("{l}");
    }
    println!(
        "[{}] tier={} seed={} evaluations={} distinct_nontrivial={} violations={} known={} wall={:.1}s",
        cfg.prop,
        cfg.tier_name(),
        cfg.seed,
        st.evals + st.libfuzzer_execs,
        distinct,
        violations,
        known_hits,
        wall
    );
    if over_panic_budget() {
        println!("run cut short: the library panicked more than {} times in this process", panic_budget());
        if violations == 0 {
            println!("INCONCLUSIVE (not a violation of {}): the panics were in calls this check does not judge (C01 does)", cfg.prop);
            return 2;
        }
    }
    if !st.oracle_errors.is_empty() {
        for e in &st.oracle_errors {
            println!("ORACLE-ERROR (inconclusive, not a violation): {e}");
        }
        return 2;
    }
    if violations > 0 {
        return 1;
    }
    if distinct < 2 {
        println!("VACUOUS RUN (inconclusive): fewer than 2 non-trivial cases");
        return 2;
    }
    0
}

/// `--replay <file>`: re-evaluate exactly one saved case.
pub fn do_replay(cfg: &Cfg, path: &str, replay: &ReplayFn) -> i32 {
    let Ok(s) = std::fs::read_to_string(path) else {
        println!("cannot read replay file {path}");
        return 2;
    };
    let Ok(v) = serde_json::from_str::<Value>(&s) else {
        println!("replay file is not JSON");
        return 2;
    };
    let case = if v.get("case").is_some() { v["case"].clone() } else { v.clone() };
    let mut st = Stats::new();
    replay(&case, &mut st);
    if st.failures.is_empty() && !st.oracle_errors.is_empty() {
        for e in &st.oracle_errors {
            println!("ORACLE-ERROR (inconclusive, not a violation): {e}");
        }
        return 2;
    }
    if st.failures.is_empty() {
        println!("[{}] replay {}: property holds on this case", cfg.prop, path);
        0
    } else {
        for f in st.failures.values() {
            println!("VIOLATION property={} replay={}", cfg.prop, path);
            println!("  signature: {}", f.sig);
            println!("  detail: {}", f.detail);
        }
        1
    }
}
