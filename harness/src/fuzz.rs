//! Coverage-guided tier (thorough only): libFuzzer campaigns over the same oracle functions
//! the property checks use. `target_fn` is what the single fuzz binary (/verif/fuzz) calls per
//! input; `campaign` builds that binary with `cargo +nightly fuzz build`, runs it in several
//! processes (fresh corpus directories: empty and seeded), and re-evaluates every crash
//! artifact in-process through the same oracle clause (normal -O build, no sanitizer) before
//! anything is reported.

use crate::ops::{self, Op};
use crate::props;
use crate::run::*;
use std::path::{Path, PathBuf};
use std::process::{Command, Stdio};
use std::sync::OnceLock;
use unic_locale::Locale;

pub type TargetFn = fn(&[u8], &mut Stats);

fn as_value(b: &[u8], st: &mut Stats, f: fn(&Locale, &serde_json::Value, &mut Stats, Count)) {
    if let Ok(Ok(loc)) = guard(|| Locale::from_bytes(b)) {
        f(&loc, &bytes_case(b), st, Count::No);
    }
}

fn t_c01(b: &[u8], st: &mut Stats) {
    props::c01::exercise(b, st, Count::No)
}
fn t_c02(b: &[u8], st: &mut Stats) {
    props::c02::check(b, st, Count::No)
}
fn t_c03(b: &[u8], st: &mut Stats) {
    props::c03::check(b, st, Count::No)
}
fn t_c04(b: &[u8], st: &mut Stats) {
    as_value(b, st, props::c04::check_value)
}
fn t_c05(b: &[u8], st: &mut Stats) {
    as_value(b, st, props::c05::check_value)
}
fn t_c09(b: &[u8], st: &mut Stats) {
    // masks are a function of the input, so the artifact alone reproduces the case
    let hsh = hash_bytes(b);
    props::c09::check_raw(b, hsh, mix(hsh) & mix(hsh ^ 1), st, Count::No)
}
fn t_c13(b: &[u8], st: &mut Stats) {
    props::c13::check_bytes(b, st, Count::No);
    as_value(b, st, props::c13::check_value);
}
fn t_c17(b: &[u8], st: &mut Stats) {
    as_value(b, st, props::c17::check_value)
}
#[cfg(feature = "serde")]
fn t_c19(b: &[u8], st: &mut Stats) {
    if let Ok(s) = std::str::from_utf8(b) {
        props::c19::check_string(s, st, Count::No);
    }
}

/// bytes -> (start, operation history): byte 0 picks the start state, every following byte one
/// operation of the 30-operation alphabet (maximize / minimize included)
pub fn decode_history(b: &[u8]) -> (Vec<u8>, Vec<Op>) {
    static ALPHA: OnceLock<Vec<Op>> = OnceLock::new();
    let alpha = ALPHA.get_or_init(ops::op_alphabet);
    let start: &[u8] = match b.first().map(|x| x % 4) {
        Some(1) => props::c10::FIXED_START,
        Some(2) => b"und-x-a",
        Some(3) => b"sr-t-h0-hybrid-u-ca",
        _ => b"",
    };
    let ops_: Vec<Op> = b.iter().skip(1).take(64).map(|x| alpha[(*x as usize * alpha.len()) >> 8].clone()).collect();
    (start.to_vec(), ops_)
}
fn t_c10(b: &[u8], st: &mut Stats) {
    static LR: OnceLock<Option<props::c10::LikelyRef>> = OnceLock::new();
    let lr = LR.get_or_init(|| props::c10::LikelyRef::load(&props::triples::replay_cfg("C10")).ok());
    let Some(lr) = lr else { return };
    let (start, ops_) = decode_history(b);
    props::c10::check_history(lr, &start, &ops_, st, Count::No);
}

pub fn target_fn(name: &str) -> Option<TargetFn> {
    Some(match name {
        "c01" => t_c01,
        "c02" => t_c02,
        "c03" => t_c03,
        "c04" => t_c04,
        "c05" => t_c05,
        "c09" => t_c09,
        "c10" => t_c10,
        "c13" => t_c13,
        "c17" => t_c17,
        #[cfg(feature = "serde")]
        "c19" => t_c19,
        _ => return None,
    })
}

// ------------------------------------------------------------------------------------------

fn fuzz_target_dir(cfg: &Cfg) -> PathBuf {
    cfg.verif.join("target").join("fuzz")
}

fn build(cfg: &Cfg) -> Result<PathBuf, String> {
    // cargo-fuzz wants to be started inside a cargo project and be told where the fuzz crate is
    let dir = cfg.verif.join("harness");
    let fuzz_dir = cfg.verif.join("fuzz");
    let out = Command::new("cargo")
        .args(["+nightly", "fuzz", "build", "--fuzz-dir"])
        .arg(&fuzz_dir)
        .arg("vfuzz")
        .current_dir(&dir)
        .env("CARGO_NET_OFFLINE", "true")
        .env("CARGO_TARGET_DIR", fuzz_target_dir(cfg))
        .env("RUSTFLAGS", "--cfg unic_locale_verif")
        .env("VERIF_REPO", &cfg.repo)
        .output()
        .map_err(|e| format!("cannot run cargo +nightly fuzz build: {e}"))?;
    if !out.status.success() {
        let err = String::from_utf8_lossy(&out.stderr);
        let tail: Vec<&str> = err.lines().rev().take(15).collect();
        return Err(format!("cargo +nightly fuzz build failed: {}", tail.into_iter().rev().collect::<Vec<_>>().join(" / ")));
    }
    let bin = fuzz_target_dir(cfg).join("x86_64-unknown-linux-gnu").join("release").join("vfuzz");
    if bin.exists() {
        Ok(bin)
    } else {
        Err(format!("fuzz binary not found at {}", bin.display()))
    }
}

fn seed_corpus(cfg: &Cfg, target: &str, dir: &Path) {
    let c = crate::gen::corpus(&cfg.repo);
    let mut n = 0;
    let mut put = |b: &[u8]| {
        let _ = std::fs::write(dir.join(format!("seed-{n:04}")), b);
        n += 1;
    };
    if target == "c10" {
        for s in [&[0u8, 10, 40, 90, 130, 200][..], &[1, 250, 3, 77, 160, 33, 99], &[2, 20, 21, 22], &[3, 180, 181, 60, 61]] {
            put(s);
        }
        return;
    }
    for (i, name) in c.locale_names.iter().enumerate().step_by(29) {
        let suf = crate::gen::EXT_SUFFIXES[i % crate::gen::EXT_SUFFIXES.len()];
        put(format!("{name}{suf}").as_bytes());
    }
    put(props::c10::FIXED_START);
    put(b"en-t-h0-hybrid-u-ca-buddhist-x-priv");
    put(b"EN_latn_us_VALENCIA_1abc");
    put(b"und-u-attr1-attr2-ca-gregory-nu-latn-t-de-1996-k0-foo-bar");
}

fn write_dict(path: &Path) {
    let mut s = String::new();
    for t in crate::gen::full_alphabet().iter().chain(crate::gen::locale_alphabet().iter()) {
        if t.is_empty() || t.len() > 12 {
            continue;
        }
        s.push('"');
        for b in t {
            s.push_str(&format!("\\x{b:02x}"));
        }
        s.push_str("\"\n");
    }
    for t in ["-u-", "-t-", "-x-", "_", "-", "-h0-", "-ca-", "true", "und"] {
        s.push_str(&format!("\"{t}\"\n"));
    }
    let _ = std::fs::write(path, s);
}

/// Run the campaign for `target`; crashes are re-evaluated with `f` in this process.
pub fn campaign(cfg: &Cfg, target: &str, runs_per_process: u64, processes: usize) -> Stats {
    let mut st = Stats::new();
    let Some(f) = target_fn(target) else {
        st.oracle_error(format!("no fuzz target {target}"));
        return st;
    };
    let bin = match build(cfg) {
        Ok(b) => b,
        Err(e) => {
            st.oracle_error(e);
            return st;
        }
    };
    let work = cfg.verif.join("target").join("fuzz-work").join(target);
    let _ = std::fs::remove_dir_all(&work);
    let _ = std::fs::create_dir_all(&work);
    let dict = work.join("tokens.dict");
    write_dict(&dict);
    let mut children = vec![];
    for k in 0..processes {
        let seeded = k % 2 == 1;
        let dir = work.join(format!("p{k}"));
        let corpus = dir.join("corpus");
        let arts = dir.join("artifacts");
        let _ = std::fs::create_dir_all(&corpus);
        let _ = std::fs::create_dir_all(&arts);
        if seeded {
            seed_corpus(cfg, target, &corpus);
        }
        let seed = (cfg.seed.wrapping_mul(1000).wrapping_add(k as u64 + 1)) & 0x7fff_ffff;
        let log = std::fs::File::create(dir.join("log.txt")).ok();
        let mut cmd = Command::new(&bin);
        cmd.arg(&corpus)
            .arg(format!("-runs={runs_per_process}"))
            .arg(format!("-seed={}", seed.max(1)))
            .arg(format!("-max_len={}", if target == "c10" { 48 } else { 96 }))
            .arg("-len_control=0")
            .arg("-rss_limit_mb=2048")
            .arg("-timeout=10")
            .arg(format!("-artifact_prefix={}/", arts.display()))
            .arg("-print_final_stats=1")
            .env("VFUZZ_TARGET", target)
            .env("VERIF_REPO", &cfg.repo)
            .env("VERIF_DIR", &cfg.verif)
            .stdout(Stdio::null());
        if target != "c10" {
            cmd.arg(format!("-dict={}", dict.display()));
        }
        match log {
            Some(l) => {
                cmd.stderr(Stdio::from(l));
            }
            None => {
                cmd.stderr(Stdio::null());
            }
        }
        match cmd.spawn() {
            Ok(c) => children.push((k, seeded, dir, c)),
            Err(e) => st.oracle_error(format!("cannot start the fuzz binary: {e}")),
        }
    }
    let mut execs = 0u64;
    let mut cover = 0u64;
    for (k, seeded, dir, mut c) in children {
        let status = c.wait().ok();
        let log = std::fs::read_to_string(dir.join("log.txt")).unwrap_or_default();
        let mut got = None;
        for l in log.lines() {
            if let Some(v) = l.strip_prefix("stat::number_of_executed_units:") {
                got = v.trim().parse::<u64>().ok();
            }
            if let Some(p) = l.find(" cov: ") {
                if let Some(v) = l[p + 6..].split(' ').next().and_then(|x| x.parse::<u64>().ok()) {
                    cover = cover.max(v);
                }
            }
        }
        execs += got.unwrap_or(0);
        st.class(&format!("libFuzzer process ({} corpus)", if seeded { "seeded" } else { "empty" }));
        let mut arts: Vec<PathBuf> = std::fs::read_dir(dir.join("artifacts")).map(|r| r.flatten().map(|e| e.path()).collect()).unwrap_or_default();
        arts.sort();
        let ok = status.map_or(false, |s| s.success());
        if !ok && arts.is_empty() {
            let tail: Vec<&str> = log.lines().rev().take(6).collect();
            st.oracle_error(format!("fuzz process {k} of target {target} ended with {:?} and left no artifact: {}", status.and_then(|s| s.code()), tail.into_iter().rev().collect::<Vec<_>>().join(" / ")));
        }
        for a in arts {
            let Ok(bytes) = std::fs::read(&a) else { continue };
            let kind = a.file_name().map(|n| n.to_string_lossy().to_string()).unwrap_or_default();
            let before = st.fail_total;
            f(&bytes, &mut st);
            if st.fail_total == before {
                if kind.starts_with("timeout") || kind.starts_with("oom") || kind.starts_with("slow") {
                    st.class("libFuzzer timeout/oom artifact not reproduced by the oracle (ignored)");
                } else {
                    st.oracle_error(format!("libFuzzer artifact {} (target {target}) is not reproduced by the oracle in the normal build; kept for inspection", a.display()));
                }
            } else {
                st.class("libFuzzer artifact confirmed by the oracle");
            }
        }
    }
    st.libfuzzer_execs += execs;
    st.extra.insert(format!("libfuzzer_{target}"), serde_json::json!({"processes": processes, "runs_per_process": runs_per_process, "executed_units": execs, "max_coverage_counter": cover}));
    st.subspace(&format!("libFuzzer campaign on target {target}: {processes} processes x -runs={runs_per_process}, half from an empty and half from a seeded corpus"), execs, false);
    if execs == 0 && st.oracle_errors.is_empty() {
        st.oracle_error(format!("libFuzzer reported no executed units for target {target}"));
    }
    st
}
