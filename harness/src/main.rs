#![allow(dead_code)]

use vcheck::props;
use vcheck::run::*;
use std::path::PathBuf;
use std::time::Instant;

struct Prop {
    id: &'static str,
    run: fn(&Cfg) -> Stats,
    replay: fn(&serde_json::Value, &mut Stats),
    rule: &'static str,
    assumptions: &'static [&'static str],
}

fn table() -> Vec<Prop> {
    let mut v = vec![
    Prop {
        id: "C20",
        run: props::c20::run,
        replay: props::c20::replay,
        rule: props::c20::RULE,
        assumptions: &["every build is the same harness source compiled through the facade crates with another cargo feature set (own target directory each); the builds are listed in VERIF_C20_BINS by ./check", "hash values are compared through std's DefaultHasher with fixed keys", "maximize / minimize steps are left out of the histories because they exist only with likelysubtags (an extra API)"],
    },
    Prop {
        id: "C01",
        run: props::c01::run,
        replay: props::c01::replay,
        rule: props::c01::RULE,
        assumptions: &["a hang is reported only when one input stalls a private child process twice for 10 s (normal cases take microseconds); any other time-out is inconclusive", "workers run with RLIMIT_AS = 2 GiB (single-case children 1 GiB)", "two builds of the same harness source: release (overflow checks on, debug assertions off) and the same with -C debug-assertions=on (VERIF_BIN_DBG); the second build's cases are the same inputs and are not added to distinct_nontrivial"],
    },
    Prop {
        id: "C02",
        run: props::c02::run,
        replay: props::c02::replay,
        rule: props::c02::RULE,
        assumptions: &["the reference recogniser (harness/src/model.rs) transcribes the EBNF of the property; its two formulations are cross-checked on every generated input"],
    },
    Prop {
        id: "C03",
        run: props::c03::run,
        replay: props::c03::replay,
        rule: props::c03::RULE,
        assumptions: &["the three-zone reference classifier (harness/src/model.rs) reads the property's wording leniently where it leaves room (DESIGN.md §5.1)", "ExtensionsMap::other is not compared"],
    },
    Prop {
        id: "C04",
        run: props::c04::run,
        replay: props::c04::replay,
        rule: props::c04::RULE,
        assumptions: &["the independent canonicaliser and strict recogniser of harness/src/model.rs define 'canonical'; a key or tkey without a value is canonical (the property lists 'no true values')"],
    },
    Prop {
        id: "C05",
        run: props::c05::run,
        replay: props::c05::replay,
        rule: props::c05::RULE,
        assumptions: &["ExtensionsMap::other is left empty, as the property states", "no oracle beyond the library's own == / Hash / Ord"],
    },
    Prop {
        id: "C09",
        run: props::c09::run,
        replay: props::c09::replay,
        rule: props::c09::RULE,
        assumptions: &["metamorphic: no reference implementation; the AST transforms only reorder / repeat the parts the property lists and flip case / separators"],
    },
    Prop {
        id: "C10",
        run: props::c10::run,
        replay: props::c10::replay,
        rule: props::c10::RULE,
        assumptions: &["the model normalises arguments with the reference recognisers of harness/src/model.rs", "a `true` value is dropped by setters exactly as by the parser", "maximize/minimize steps use the JSON-built likely-subtags reference; where C06 allows either answer the library's is adopted after checking that it keeps the given subtags and fills all three"],
    },
    Prop {
        id: "C11",
        run: props::c11::run,
        replay: props::c11::replay,
        rule: props::c11::RULE,
        assumptions: &["the expected result is the property's formula evaluated on what the getters expose"],
    },
    Prop {
        id: "C12",
        run: props::c12::run,
        replay: props::c12::replay,
        rule: props::c12::RULE,
        assumptions: &["std DefaultHasher::new() (fixed keys) is the hash probe", "ExtensionsMap::other stays empty"],
    },
    Prop {
        id: "C13",
        run: props::c13::run,
        replay: props::c13::replay,
        rule: props::c13::RULE,
        assumptions: &["differential between LanguageIdentifier and Locale entry points; the reference model only selects the well-formed locale strings for clause 2"],
    },
    Prop {
        id: "C14",
        run: props::c14::run,
        replay: props::c14::replay,
        rule: props::c14::RULE,
        assumptions: &["the direction model (harness/src/likely.rs, Layout) is read at run time from the layout.json files", "'a script that CLDR lists' = a script occurring in a locale name of the layout data", "two builds of the same harness source: likelysubtags on (main) and off (VERIF_BIN_NOLIKELY)"],
    },
    Prop {
        id: "C15",
        run: props::c15::run,
        replay: props::c15::replay,
        rule: props::c15::RULE,
        assumptions: &["reference predicates transcribe the UTS #35 EBNF productions quoted in the property"],
    },
    Prop {
        id: "C16",
        run: props::c16::run,
        replay: props::c16::replay,
        rule: props::c16::RULE,
        assumptions: &["well-formed / ill-formed is decided by the reference model of harness/src/model.rs; literals in the property's 'either' zones are never generated", "the generated crates are built by cargo (offline) against /repo's facade crates with features = [\"macros\"]; a build failure that cannot be attributed to a generated invocation is inconclusive (exit 2)", "only literals expressible as Rust string literals (valid UTF-8) are used"],
    },
    Prop {
        id: "C17",
        run: props::c17::run,
        replay: props::c17::replay,
        rule: props::c17::RULE,
        assumptions: &["the unsafe from_raw_unchecked calls are sound because every integer comes from a valid subtag of the same type"],
    },
    ];
    extra_props(&mut v);
    serde_props(&mut v);
    v.sort_by_key(|p| p.id);
    v
}

#[cfg(feature = "likely")]
fn extra_props(v: &mut Vec<Prop>) {
    v.push(Prop {
        id: "C06",
        run: props::c06::run,
        replay: props::c06::replay,
        rule: props::c06::RULE,
        assumptions: &["the reference cascade (harness/src/likely.rs) is built at run time from unic-langid-impl/data/likelySubtags.json, never from the compiled tables", "in the three fallback situations the property names, None or exactly the UTS #35 fallback is accepted"],
    });
    v.push(Prop {
        id: "C07",
        run: props::c07::run,
        replay: props::c07::replay,
        rule: props::c07::RULE,
        assumptions: &["algebraic oracle on the library's own answers; no CLDR data involved"],
    });
    v.push(Prop {
        id: "C08",
        run: props::c08::run,
        replay: props::c08::replay,
        rule: props::c08::RULE,
        assumptions: &["minimize(maximize(x)) == minimize(x) and 'twice equals once' are evaluated on the results of the query (DESIGN.md 5.4)", "the reference 'remove likely subtags' is built from the JSON; triples that touch a case where C06 allows two answers are compared by the algebraic clauses only"],
    });
    v.push(Prop {
        id: "C18",
        run: props::c18::run,
        replay: props::c18::replay,
        rule: props::c18::RULE,
        assumptions: &["the expected tables are re-derived at run time from likelySubtags.json and the layout.json files (harness/src/likely.rs)", "the compiled tables are read through the cfg(unic_locale_verif) re-export hook", "a value region ZZ is dropped, as the table generator documents (none occurs in the bundled data)"],
    });
}
#[cfg(not(feature = "likely"))]
fn extra_props(_v: &mut Vec<Prop>) {}

#[cfg(feature = "serde")]
fn serde_props(v: &mut Vec<Prop>) {
    v.push(Prop {
        id: "C19",
        run: props::c19::run,
        replay: props::c19::replay,
        rule: props::c19::RULE,
        assumptions: &["serde_json (and serde's in-memory value deserialisers) stand for 'serde'; the parsing oracle for strings is the library's own FromStr, as the property states", "the canonical string comes from the independent canonicaliser of harness/src/model.rs and from Display"],
    });
}
#[cfg(not(feature = "serde"))]
fn serde_props(_v: &mut Vec<Prop>) {}

fn main() {
    let args: Vec<String> = std::env::args().collect();
    if args.len() >= 3 && args[1] == "--cold" {
        // cold-start probe (props/cold.rs): nothing of the library has run in this process yet
        std::process::exit(props::cold::child_main(&args[2..]));
    }
    if args.len() < 3 {
        eprintln!("usage: vcheck <ID> <quick|thorough> | vcheck <ID> --replay <file>");
        std::process::exit(2);
    }
    install_panic_hook();
    let id = args[1].to_uppercase();
    let seed: u64 = std::env::var("VERIF_SEED").ok().and_then(|s| s.trim().parse::<i64>().ok()).map(|v| v as u64).unwrap_or(0);
    let verif = PathBuf::from(std::env::var("VERIF_DIR").unwrap_or("/verif".into()));
    let repo = PathBuf::from(std::env::var("VERIF_REPO").unwrap_or("/repo".into()));
    let submode = args[2].starts_with("--") && args[2] != "--replay";
    let tier = match (if submode { args.get(3).map(|s| s.as_str()).unwrap_or("quick") } else { args[2].as_str() }) {
        "thorough" => Tier::Thorough,
        _ => Tier::Quick,
    };
    let cfg = Cfg { prop: id.clone(), tier, seed, verif, repo, start: Instant::now() };
    if submode && id == "C01" {
        let rest: Vec<String> = args[4..].to_vec();
        let code = match args[2].as_str() {
            "--worker" => props::c01::worker(&cfg, &rest),
            "--chunk" => props::c01::chunk_mode(&cfg, &rest),
            "--one" => props::c01::one_mode(&cfg, &rest),
            "--long" => props::c01::long_mode(&cfg, &rest),
            "--config-child" => props::c01::child_mode(&cfg),
            _ => 2,
        };
        std::process::exit(code);
    }
    if submode && id == "C20" && args[2] == "--transcript" {
        let Some(path) = args.get(4) else { std::process::exit(2) };
        std::process::exit(props::c20::transcript_mode(&cfg, path));
    }
    if submode && id == "C14" && args[2] == "--config-child" {
        std::process::exit(props::c14::child_mode(&cfg));
    }
    let Some(p) = table().into_iter().find(|p| p.id == id) else {
        eprintln!("unknown property {id}");
        std::process::exit(2);
    };
    if let Ok(n) = std::env::var("VERIF_THREADS") {
        if let Ok(n) = n.parse::<usize>() {
            let _ = rayon::ThreadPoolBuilder::new().num_threads(n).build_global();
        }
    }
    // checks that are repeated in the build with debug assertions on (debug_assert!, cfg(debug_assertions));
    // C01 does so itself, C14 / C16 / C18 / C20 are about builds, generated crates and tables
    const DBG_IDS: &[&str] = &["C02", "C03", "C04", "C05", "C06", "C07", "C08", "C09", "C10", "C11", "C12", "C13", "C15", "C17", "C19"];
    if submode && args[2] == "--dbg-child" {
        let st = (p.run)(&cfg);
        props::c01::dbg_child(&st);
        std::process::exit(0);
    }
    let dbg_routed = DBG_IDS.contains(&id.as_str());
    let base_replay: fn(&serde_json::Value, &mut Stats) = p.replay;
    let id2 = id.clone();
    let routed = move |case: &serde_json::Value, st: &mut Stats| {
        // a case of a hidden-state phase names the inputs that were evaluated right before it
        for pre in case_predecessors(case) {
            let mut scratch = Stats::new();
            base_replay(&pre, &mut scratch);
        }
        if dbg_routed && !cfg!(debug_assertions) && case.get("build").and_then(|k| k.as_str()) == Some(props::c01::DBG_TAG) {
            props::c01::replay_in_dbg_build(&id2, case, st);
        } else {
            base_replay(case, st);
        }
    };
    let code = if args[2] == "--replay" {
        let Some(path) = args.get(3) else {
            eprintln!("--replay needs a path");
            std::process::exit(2);
        };
        do_replay(&cfg, path, &routed)
    } else {
        let mut st = (p.run)(&cfg);
        if dbg_routed && std::env::var("VERIF_DBG").map_or(true, |v| v != "0") {
            st = props::c01::with_dbg_build(&cfg, &id, "--dbg-child", st);
        }
        // thorough tier: coverage-guided campaign on the same oracle (DESIGN.md 3.8)
        let target = id.to_lowercase();
        let fuzz_on = cfg.tier == Tier::Thorough || std::env::var("VERIF_FUZZ").map_or(false, |v| v == "1");
        if fuzz_on && std::env::var("VERIF_FUZZ").map_or(true, |v| v != "0") && vcheck::fuzz::target_fn(&target).is_some() {
            let runs: u64 = std::env::var("VERIF_FUZZ_RUNS").ok().and_then(|v| v.parse().ok()).unwrap_or(if target == "c01" { 400_000 } else { 1_500_000 });
            st = st.merge(vcheck::fuzz::campaign(&cfg, &target, runs, 8));
        }
        finish(&cfg, st, p.rule, p.assumptions, &routed)
    };
    std::process::exit(code);
}
