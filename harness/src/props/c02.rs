//! C02 — LanguageIdentifier parsing accepts exactly the well-formed language identifiers.

use crate::model::{self, LangErr};
use crate::obs;
use crate::props::spaces;
use crate::run::*;
use serde_json::Value;
use std::str::FromStr;
use unic_langid::parser::ParserError;
use unic_langid::{LanguageIdentifier, LanguageIdentifierError};

pub const RULE: &str = "Domain: bounded-exhaustive token sequences (langid boundary alphabet: every length 0-9 x {letters, digits, digit+letters, letters+digit}, und/UND, mixed case, tokens with '.', space, 0x80, NUL, multi-byte UTF-8, empty) of 1-4 (quick) / 1-5 (thorough) subtags with '-', a reduced alphabet with '_' and alternating separators, proptest-generated well-formed language ids with random case/separator masks (G2), 1-3-edit near misses of those (G3), weighted raw bytes (G4), the CLDR names/keys/values (G5). Oracle: independent recogniser/canonicaliser (recursive descent, cross-checked on every input against an anchored regex formulation). Non-trivial = well-formed with >= 2 subtags, or ill-formed with a well-formed first subtag (the position state machine is entered). Enumerated cases distinct by construction (later enumerations skip members of earlier ones); generated cases counted through a hash set.";

use crate::model::tok_class;

/// class of the first token at which the reference parser stops
fn offending(b: &[u8]) -> String {
    let toks = model::split(b);
    if !model::is_language(toks[0]) {
        return format!("first:{}", tok_class(toks[0]));
    }
    let mut pos = 1;
    let mut stage = 1;
    while pos < toks.len() {
        let t = toks[pos];
        if stage <= 1 && model::is_script(t) {
            stage = 2;
        } else if stage <= 2 && model::is_region(t) {
            stage = 3;
        } else if model::is_variant(t) {
            stage = 3;
        } else {
            return format!("stage{}:{}", stage, tok_class(t));
        }
        pos += 1;
    }
    "none".into()
}

fn shape(m: &model::LangModel) -> String {
    format!(
        "L{}{}{}",
        if m.script.is_some() { "S" } else { "" },
        if m.region.is_some() { "R" } else { "" },
        if m.variants.is_empty() { "" } else { "V" }
    )
}

pub fn check(b: &[u8], st: &mut Stats, mode: Count) {
    netted(st, || bytes_case(b), b.len(), |st| check_inner(b, st, mode));
}

fn check_inner(b: &[u8], st: &mut Stats, mode: Count) {
    st.eval();
    if let Err(e) = model::self_check(b) {
        st.oracle_error(e);
        return;
    }
    let reference = model::ref_langid(b);
    let toks = model::split(b);
    let nontrivial = match &reference {
        Ok(_) => toks.len() >= 2,
        Err(_) => model::is_language(toks[0]),
    };
    if nontrivial {
        st.class(if reference.is_ok() { "wellformed>=2-subtags" } else { "illformed-after-valid-language" });
        st.count(mode, hash_bytes(b), || bytes_case(b));
    } else {
        st.class(if reference.is_ok() { "wellformed-bare-language" } else { "illformed-first-subtag" });
    }
    let case = || bytes_case(b);
    let r = match guard(|| LanguageIdentifier::from_bytes(b)) {
        Ok(r) => r,
        Err(p) => {
            st.fail(panic_sig(&p), case(), b.len(), format!("from_bytes panicked: {p:?}"));
            return;
        }
    };
    match (&r, &reference) {
        (Ok(li), Err(_)) => {
            st.fail(
                format!("accepts-illformed:{}", offending(b)),
                case(),
                b.len(),
                format!("from_bytes -> Ok({:?}) but the input is not a well-formed language identifier", li.to_string()),
            );
            return;
        }
        (Err(e), Ok(m)) => {
            st.fail(
                format!("rejects-wellformed:{}", shape(m)),
                case(),
                b.len(),
                format!("from_bytes -> Err({e:?}) but the input is well-formed: {}", model::canon_langid(m)),
            );
            return;
        }
        (Ok(li), Ok(m)) => {
            let o = obs::obs_langid(li);
            if &o != m {
                st.fail("value-mismatch", case(), b.len(), format!("value {o:?} expected {m:?}"));
            }
            let s = li.to_string();
            if s != model::canon_langid(m) {
                st.fail("to_string-mismatch", case(), b.len(), format!("to_string {s:?} expected {:?}", model::canon_langid(m)));
            }
            let dbg = format!("{li:?}");
            if m.variants.is_empty() && !dbg.contains("variants: None") {
                st.fail("empty-variants-not-None", case(), b.len(), format!("Debug = {dbg}"));
            }
        }
        (Err(e), Err(me)) => {
            let kind_ok = match (e, me) {
                (LanguageIdentifierError::ParserError(ParserError::InvalidLanguage), LangErr::InvalidLanguage) => true,
                (LanguageIdentifierError::ParserError(ParserError::InvalidSubtag), LangErr::InvalidSubtag) => true,
                _ => false,
            };
            if !kind_ok {
                st.fail(format!("error-kind:expected-{me:?}"), case(), b.len(), format!("error {e:?}, expected {me:?}"));
            }
            let _ = format!("{e} {e:?}");
        }
    }
    // (iv) other entry points agree
    let p2 = guard(|| unic_langid::parser::parse_language_identifier(b));
    match p2 {
        Err(p) => st.fail(panic_sig(&p), case(), b.len(), "parse_language_identifier panicked"),
        Ok(p2) => {
            let same = match (&p2, &r) {
                (Ok(a), Ok(b2)) => a == b2,
                (Err(a), Err(LanguageIdentifierError::ParserError(b2))) => a == b2,
                _ => false,
            };
            if !same {
                st.fail("entrypoints-disagree:parse_language_identifier", case(), b.len(), format!("{p2:?} vs {r:?}"));
            }
        }
    }
    match guard(|| unic_langid::canonicalize(b)) {
        Err(p) => st.fail(panic_sig(&p), case(), b.len(), "canonicalize panicked"),
        Ok(c) => {
            let same = match (&c, &r) {
                (Ok(s), Ok(li)) => *s == li.to_string(),
                (Err(a), Err(b2)) => a == b2,
                _ => false,
            };
            if !same {
                st.fail("entrypoints-disagree:canonicalize", case(), b.len(), format!("{c:?} vs {r:?}"));
            }
        }
    }
    if let Ok(s) = std::str::from_utf8(b) {
        match guard(|| LanguageIdentifier::from_str(s)) {
            Err(p) => st.fail(panic_sig(&p), case(), b.len(), "from_str panicked"),
            Ok(f) => {
                if f != r {
                    st.fail("entrypoints-disagree:from_str", case(), b.len(), format!("{f:?} vs {r:?}"));
                }
            }
        }
    }
}

pub fn run(cfg: &Cfg) -> Stats {
    spaces::langid_space(cfg, "c02", &check)
}

pub fn replay(case: &Value, st: &mut Stats) {
    if let Some(b) = case_bytes(case) {
        check(&b, st, Count::Hash);
    }
}
