//! C08 — minimize preserves meaning, never lengthens, and is idempotent.
#![cfg(feature = "likely")]

use crate::likely::{Expect, Triple};
use crate::props::triples::*;
use crate::run::*;
use crate::values;
use serde_json::Value;
use unic_locale::{LanguageIdentifier, Locale};

pub const RULE: &str = "Domain: the (language, script, region) sweep of C06 at function level (quick: stratified, thorough: the whole universe of about 3.1e8 triples) and proptest-generated LanguageIdentifiers / Locales (triple biased to CLDR keys and pruned values, variants, every extension shape) at method level. Oracle, library only, with max'(y) = maximize(y) or y when unchanged: minimize(x) = Some(m) => max'(m) == max'(x); m's language is max'(x)'s and m's script / region are absent or max'(x)'s; m has no more script/region subtags than x; m is the first of [L], [L,R], [L,S] (from max'(x) = L-S-R) whose max' equals max'(x); minimize(max'(x)) == minimize(x) and minimize(m) is None or Some(m), both as results of the query (DESIGN.md 5.4). In addition minimize(x) must equal a reference 'remove likely subtags' over the JSON-built dictionary wherever no case in which C06 allows two answers is touched on the way (counted as excluded_fallback). Methods: false => value unchanged; variants and the whole extension part untouched; the method agrees with the function; a second minimize() does not change the value; x.maximize().minimize() and x.minimize() agree as query results. Non-trivial = minimize answered Some(m) with m != x. Distinct by construction / hash set.";

fn maxp(x: Lib) -> Result<Lib, PanicInfo> {
    Ok(lib_max(x)?.unwrap_or(x))
}

fn n_sr(x: &Lib) -> usize {
    x.1.is_some() as usize + x.2.is_some() as usize
}

/// reference minimize; Err(()) when a C06 "either" case is met before the answer is decided
fn ref_min(h: &Handles, t: Triple) -> Result<Option<Triple>, ()> {
    let full = t.l != 0 && t.s != 0 && t.r != 0;
    let max = if full {
        t
    } else {
        match h.lk.expect_max(t) {
            Expect::Exact(Some(v)) => v,
            Expect::Exact(None) => return Ok(None),
            Expect::NoneOrFallback => return Err(()),
        }
    };
    let trials = [Some(Triple { l: max.l, s: 0, r: 0 }), if max.r != 0 { Some(Triple { l: max.l, s: 0, r: max.r }) } else { None }, if max.s != 0 { Some(Triple { l: max.l, s: max.s, r: 0 }) } else { None }];
    for trial in trials.into_iter().flatten() {
        match h.lk.expect_max(trial) {
            Expect::Exact(Some(v)) if v == max => return Ok(Some(trial)),
            Expect::Exact(_) => {}
            Expect::NoneOrFallback => return Err(()),
        }
    }
    Ok(None)
}

pub fn check_triple(h: &Handles, t: Triple, st: &mut Stats, mode: Count) {
    netted(st, || h.case(t), 3, |st| check_triple_inner(h, t, st, mode));
}

fn check_triple_inner(h: &Handles, t: Triple, st: &mut Stats, mode: Count) {
    st.eval();
    let x = h.lib(t);
    let case = || h.case(t);
    let r = (|| -> Result<(), PanicInfo> {
        let got = lib_min(x)?;
        let mx = maxp(x)?;
        let shown = format!("minimize({}) = {}", h.lk.show(t), Handles::show_lib(&got));
        // reference
        match ref_min(h, t) {
            Ok(e) => {
                let e_lib = e.map(|v| h.lib(v));
                if got != e_lib {
                    let kind = match (&got, &e_lib) {
                        (None, Some(_)) => "shorter-form-missed",
                        (Some(_), None) => "answer-without-basis",
                        _ => "wrong-form",
                    };
                    st.fail(format!("fn:differs-from-reference:{kind}"), case(), 3, format!("{shown}, reference over the CLDR data gives {}", Handles::show_lib(&e_lib)));
                }
            }
            Err(()) => st.class("excluded_fallback (reference comparison skipped)"),
        }
        // minimize(max'(x)) == minimize(x), as query results
        let via_max = lib_min(mx)?;
        if via_max != got {
            st.fail("fn:minimize-of-maximized-differs", case(), 3, format!("{shown}, but minimize(maximize(x)) = {}", Handles::show_lib(&via_max)));
        }
        match got {
            None => {
                if lib_max(x)?.is_some() {
                    st.class("min_none_max_some (maximizable, no shorter form)");
                } else {
                    st.class("unchanged");
                }
            }
            Some(m) => {
                if m != x {
                    st.class("changed");
                    st.count(mode, hash_triple(t), case);
                } else {
                    st.class("answered-with-the-input-itself");
                }
                let mm = maxp(m)?;
                if mm != mx {
                    st.fail("fn:meaning-changed", case(), 3, format!("{shown}: result maximizes to {}, original to {}", Handles::show_lib(&Some(mm)), Handles::show_lib(&Some(mx))));
                }
                if m.0 != mx.0 || (m.1.is_some() && m.1 != mx.1) || (m.2.is_some() && m.2 != mx.2) {
                    st.fail("fn:uses-foreign-subtag", case(), 3, format!("{shown}, the maximized original is {}", Handles::show_lib(&Some(mx))));
                }
                if n_sr(&m) > n_sr(&x) {
                    st.fail("fn:lengthened", case(), 3, shown.clone());
                }
                // first of [L], [L,R], [L,S]
                let cands: [Option<Lib>; 3] = [Some((mx.0, None, None)), mx.2.map(|r| (mx.0, None, Some(r))), mx.1.map(|s| (mx.0, Some(s), None))];
                let mut first = None;
                for c in cands.into_iter().flatten() {
                    if maxp(c)? == mx {
                        first = Some(c);
                        break;
                    }
                }
                if first != Some(m) {
                    st.fail("fn:not-the-first-candidate", case(), 3, format!("{shown}, the first of L / L-R / L-S that maximizes back is {}", Handles::show_lib(&first)));
                }
                // twice == once
                let again = lib_min(m)?;
                if again.is_some() && again != Some(m) {
                    st.fail("fn:not-idempotent", case(), 3, format!("{shown}, minimizing that again gives {}", Handles::show_lib(&again)));
                }
            }
        }
        Ok(())
    })();
    if let Err(p) = r {
        st.fail(format!("minimize:{}", panic_sig(&p)), case(), 3, format!("panicked: {p:?}"));
    }
}

pub fn check_parts(h: &Handles, p: &values::Parts, st: &mut Stats, mode: Count) {
    netted(st, || values::parts_case(p), values::parts_case(p).to_string().len(), |st| check_parts_inner(h, p, st, mode));
}

fn check_parts_inner(h: &Handles, p: &values::Parts, st: &mut Stats, mode: Count) {
    st.eval();
    let case = || values::parts_case(p);
    let size = case().to_string().len();
    let Some(b) = values::parse_parts(p) else {
        st.class("parts-not-buildable(skipped)");
        return;
    };
    let _ = h;
    let r = guard(|| {
        let li0 = LanguageIdentifier::from_parts(b.language, b.script, b.region, &b.variants);
        let mut li = li0.clone();
        let c = li.minimize();
        let mut li2 = li.clone();
        let c2 = li2.minimize();
        let mut via = li0.clone();
        via.maximize();
        let cv = via.minimize();
        let f = unic_langid::likelysubtags::minimize(b.language, b.script, b.region);
        let loc0 = Locale::from_parts(b.language, b.script, b.region, &b.variants, b.ext.clone());
        let mut loc = loc0.clone();
        let lc = loc.id.minimize();
        (li0, li, c, li2, c2, via, cv, f, loc0, loc, lc)
    });
    let (li0, li, c, li2, c2, via, cv, f, loc0, loc, lc) = match r {
        Ok(x) => x,
        Err(pn) => {
            st.fail(format!("method:{}", panic_sig(&pn)), case(), size, format!("panicked: {pn:?}"));
            return;
        }
    };
    if c != f.is_some() || (c && Some(lib_triple(&li)) != f) {
        st.fail("method:differs-from-function", case(), size, format!("{li0}: minimize() = {c} -> {li}, likelysubtags::minimize = {}", Handles::show_lib(&f)));
    }
    if !c && (li != li0 || li.to_string() != li0.to_string()) {
        st.fail("method:false-but-changed", case(), size, format!("{li0}: minimize() returned false, value is now {li}"));
    }
    if c && li != li0 {
        st.class("method:changed");
        st.count(mode, hash_str(&case().to_string()), case);
        if n_sr(&lib_triple(&li)) > n_sr(&lib_triple(&li0)) {
            st.fail("method:lengthened", case(), size, format!("{li0} -> {li}"));
        }
        let mut a = li.clone();
        a.maximize();
        let mut o = li0.clone();
        o.maximize();
        if lib_triple(&a) != lib_triple(&o) {
            st.fail("method:meaning-changed", case(), size, format!("{li0} -> {li}; they maximize to {o} and {a}"));
        }
    } else {
        st.class("method:unchanged");
    }
    // a present-but-empty variant list (safe constructor from_raw_parts_unchecked; an empty list
    // is 'deduplicated and ordered') must come through untouched as well
    if li0.variants().len() == 0 {
        let tw0 = LanguageIdentifier::from_raw_parts_unchecked(b.language, b.script, b.region, Some(Box::new([])));
        let mut tw = tw0.clone();
        let ct = tw.minimize();
        let want = LanguageIdentifier::from_raw_parts_unchecked(li.language, li.script, li.region, Some(Box::new([])));
        if ct != c || tw != want {
            st.fail("method:present-but-empty-variant-list-touched", case(), size, format!("{li0} built with Some([]): minimize() = {ct}, the result is not the same identifier with Some([]) variants"));
        }
    }
    if li.variants().collect::<Vec<_>>() != li0.variants().collect::<Vec<_>>() {
        st.fail("method:variants-touched", case(), size, format!("{li0} -> {li}"));
    }
    if li2 != li || li2.to_string() != li.to_string() {
        st.fail("method:not-idempotent", case(), size, format!("{li0} -> {li} -> {li2} (second call returned {c2})"));
    }
    if cv != c || (c && via != li) {
        st.fail("method:minimize-of-maximized-differs", case(), size, format!("{li0}: minimize() = {c} -> {li}; maximize() then minimize() = {cv} -> {via}"));
    }
    if lc != c || loc.id != li {
        st.fail("method:locale-id-differs-from-langid", case(), size, format!("LanguageIdentifier -> {li} ({c}), Locale.id -> {} ({lc})", loc.id));
    }
    if loc.extensions != loc0.extensions || loc.extensions.to_string() != loc0.extensions.to_string() || crate::obs::obs_ext(&loc.extensions, Default::default()) != crate::obs::obs_ext(&loc0.extensions, Default::default()) {
        st.fail("method:extensions-touched", case(), size, format!("{loc0} -> {loc}"));
    }
}

pub fn run(cfg: &Cfg) -> Stats {
    let h = match load_or_error(cfg) {
        Ok(h) => h,
        Err(st) => return st,
    };
    let mut total = sweep(cfg, &h, "c08", &|t, st, mode| check_triple(&h, t, st, mode));
    let n = cfg.pick(1_000_000, 6_000_000);
    let s = run_strategy(&s_dressed(&h), cfg.seed, "c08-dressed", n, |d, st| check_parts(&h, &h.dressed_parts(d), st, Count::Hash));
    total = total.merge(s);
    total.subspace("LanguageIdentifier / Locale built from a biased triple + variants + extensions, minimize() (proptest)", n, false);
    total
}

pub fn replay(case: &Value, st: &mut Stats) {
    let cfg = replay_cfg("C08");
    let Ok(h) = Handles::load(&cfg) else { return };
    match case["kind"].as_str() {
        Some("triple") => {
            if let Some(t) = h.from_case(case) {
                check_triple(&h, t, st, Count::No);
            }
        }
        Some("parts") => {
            if let Some(p) = values::parts_from_case(case) {
                check_parts(&h, &p, st, Count::No);
            }
        }
        _ => {}
    }
}
