//! C04 — serialisation always emits the canonical well-formed form.

use crate::model::{self, Zone};
use crate::obs;
use crate::run::*;
use crate::values::{self, case_size};
use serde_json::Value;
use unic_locale::{LanguageIdentifier, Locale};

pub const RULE: &str = "Domain: reachable values (G8): Locales parsed from every accepted input of an exhaustive token space ('en-' + 27-token locale alphabet to 3 | 4 subtags, 'en-' + 12-token core alphabet to 5 | 6), from proptest well-formed locales with case/separator masks and from CLDR names with extension suffixes; Locale::from_parts over valid subtags with permuted / duplicated / upper-case variants and a parsed extension string; end states of mutation histories (all 1-2 | 1-3 operation sequences over the 33-operation alphabet (incl. clone / clone_from / mem::take) from two starts, and random histories of length 0-40). Oracle: to_string() == canonical rendering of what the getters expose (independent canonicaliser); to_string() passes the strict canonical recogniser; for parsed inputs canonicalize(s) == canon(reference model of s) == parse(s).to_string() and is never longer than s. Display is also driven into sinks that fail at once / half-way / one byte short: what arrived is a prefix of the rendering and to_string() is unchanged afterwards. Non-trivial = value has >= 2 variants or an extension, or was produced by from_parts / a mutation history. Enumerated inputs distinct by construction, the rest counted through a hash set of the case.";

fn why_kind(w: &str) -> &str {
    w.split(|c| c == ':' || c == '(').next().unwrap_or(w).trim()
}

pub fn check_value(loc: &Locale, case: &Value, st: &mut Stats, mode: Count) {
    netted(st, || case.clone(), case_size(case), |st| check_value_inner(loc, case, st, mode));
}

fn check_value_inner(loc: &Locale, case: &Value, st: &mut Stats, mode: Count) {
    st.eval();
    if !loc.extensions.other.is_empty() {
        // supporting other extensions is allowed (C03); the property does not say where they go in the canonical form
        st.class("value with an extension other than t / u / x (canonical form not specified: skipped)");
        return;
    }
    let size = case_size(case);
    let o = obs::obs_locale(loc);
    let route = values::case_route(case);
    if o.id.variants.len() >= 2 || o.has_ext() || route != "bytes" {
        st.class(&format!("nontrivial:{route}"));
        st.count(mode, hash_str(&case.to_string()), || case.clone());
    }
    let s = match guard(|| loc.to_string()) {
        Ok(s) => s,
        Err(p) => {
            st.fail(panic_sig(&p), case.clone(), size, "to_string panicked");
            return;
        }
    };
    let c = model::canon_locale(&o);
    if s != c {
        st.fail("display-disagrees-with-getters", case.clone(), size, format!("to_string {s:?}; canonical rendering of the getters' content {c:?}"));
    }
    if let Err(w) = model::is_canonical_locale(&s) {
        st.fail(format!("not-canonical:{}", why_kind(&w)), case.clone(), size, format!("to_string {s:?}: {w}"));
    }
    let ids = loc.id.to_string();
    if ids != model::canon_langid(&o.id) {
        st.fail("langid-display-disagrees-with-getters", case.clone(), size, format!("id.to_string {ids:?}"));
    }
    if let Err(w) = model::is_canonical_langid(&ids) {
        st.fail(format!("langid-not-canonical:{}", why_kind(&w)), case.clone(), size, format!("id.to_string {ids:?}: {w}"));
    }
    let es = loc.extensions.to_string();
    if es != model::canon_ext(&o) || format!("{ids}{es}") != s {
        st.fail("extensions-display", case.clone(), size, format!("extensions.to_string {es:?} vs {:?}", model::canon_ext(&o)));
    }
    if let Some(tl) = loc.extensions.transform.tlang() {
        if let Err(w) = model::is_canonical_langid(&tl.to_string()) {
            st.fail(format!("tlang-not-canonical:{}", why_kind(&w)), case.clone(), size, format!("tlang prints {:?}: {w}", tl.to_string()));
        }
    }
    // sortedness seen through the getters (independent of the canonicaliser)
    let strictly_inc = |v: &Vec<String>| v.windows(2).all(|w| w[0] < w[1]);
    let non_dec = |v: &Vec<String>| v.windows(2).all(|w| w[0] <= w[1]);
    let (kk, tk) = obs::key_orders(&loc.extensions);
    if !strictly_inc(&o.id.variants) || !strictly_inc(&o.attrs) || !strictly_inc(&kk) || !strictly_inc(&tk) || !non_dec(&o.private) {
        st.fail("getter-order", case.clone(), size, format!("variants {:?} attributes {:?} keys {kk:?} tkeys {tk:?} tags {:?}", o.id.variants, o.attrs, o.private));
    }
    // Display must not keep state between calls: after writes into sinks that fail at once,
    // half-way and one byte short, the renderings are what they were
    match guard(|| values::poison_display(loc, &s)) {
        Err(p) => st.fail(format!("failing-sink:{}", panic_sig(&p)), case.clone(), size, "Display panicked while writing into a sink that reports an error"),
        Ok(Some(why)) => st.fail("failing-sink:partial-output-is-not-a-prefix", case.clone(), size, why),
        Ok(None) => {}
    }
    let (s2, ids2, es2) = (loc.to_string(), loc.id.to_string(), loc.extensions.to_string());
    if s2 != s || ids2 != ids || es2 != es {
        st.fail("to_string-differs-after-a-failed-write", case.clone(), size, format!("before: {s:?} / {ids:?} / {es:?}; after writes into failing sinks on the same thread: {s2:?} / {ids2:?} / {es2:?}"));
    }
    if route == "bytes" {
        if let Some(b) = case_bytes(case) {
            // the value under test was itself parsed from these bytes (possibly right after other,
            // failing, parses on this thread): it must be the value the text denotes
            if let Zone::MustAccept(m, _) = model::ref_locale(&b) {
                if s != model::canon_locale(&m) && s != model::canon_locale(&m.without_true()) {
                    st.fail("parsed-value!=reference", case.clone(), size, format!("value parsed from the bytes prints {s:?}, reference {:?}", model::canon_locale(&m.without_true())));
                }
            }
            if s.len() > b.len() {
                st.fail("canonical-form-longer-than-input", case.clone(), size, format!("value parsed from the bytes prints {s:?}"));
            }
            if let Ok(Ok(cs)) = guard(|| unic_locale::canonicalize(&b)) {
                if cs != s {
                    st.fail("canonicalize!=to_string-of-parsed-value", case.clone(), size, format!("canonicalize {cs:?} vs {s:?}"));
                }
            }
            // last: its failing language-identifier parses are what the next value on this thread is parsed after
            check_bytes(&b, case, st);
        }
    }
}

fn check_bytes(b: &[u8], case: &Value, st: &mut Stats) {
    let size = b.len();
    let r = guard(|| Locale::from_bytes(b));
    let c = guard(|| unic_locale::canonicalize(b));
    if let (Ok(r), Ok(c)) = (&r, &c) {
        match (r, c) {
            (Ok(loc), Ok(cs)) => {
                if *cs != loc.to_string() {
                    st.fail("canonicalize!=parse+to_string", case.clone(), size, format!("{cs:?} vs {:?}", loc.to_string()));
                }
                if cs.len() > b.len() {
                    st.fail("canonicalize-longer-than-input", case.clone(), size, format!("{cs:?}"));
                }
                if let Zone::MustAccept(m, _) = model::ref_locale(b) {
                    if *cs != model::canon_locale(&m) && *cs != model::canon_locale(&m.without_true()) {
                        st.fail("canonicalize!=reference", case.clone(), size, format!("{cs:?} vs {:?}", model::canon_locale(&m.without_true())));
                    }
                }
            }
            (Err(_), Err(_)) => {}
            _ => st.fail("canonicalize-vs-parse-disagree", case.clone(), size, format!("{c:?} vs parse ok={}", r.is_ok())),
        }
    }
    let r = guard(|| LanguageIdentifier::from_bytes(b));
    let c = guard(|| unic_langid::canonicalize(b));
    if let (Ok(r), Ok(c)) = (&r, &c) {
        match (r, c) {
            (Ok(li), Ok(cs)) => {
                if *cs != li.to_string() || cs.len() > b.len() {
                    st.fail("langid-canonicalize", case.clone(), size, format!("{cs:?} vs {:?}", li.to_string()));
                }
                if let Ok(m) = model::ref_langid(b) {
                    if *cs != model::canon_langid(&m) {
                        st.fail("langid-canonicalize!=reference", case.clone(), size, format!("{cs:?} vs {:?}", model::canon_langid(&m)));
                    }
                }
            }
            (Err(_), Err(_)) => {}
            _ => st.fail("langid-canonicalize-vs-parse-disagree", case.clone(), size, format!("{c:?}")),
        }
    }
}

pub fn run(cfg: &Cfg) -> Stats {
    values::for_each_value(cfg, "c04", &check_value)
}

pub fn replay(case: &Value, st: &mut Stats) {
    if let Some(loc) = values::value_from_case(case) {
        check_value(&loc, case, st, Count::Hash);
    }
}
