//! C11 — matches() implements missing-subtag-as-wildcard semantics.

use crate::gen;
use crate::model::LangModel;
use crate::obs;
use crate::run::*;
use proptest::prelude::*;
use serde_json::{json, Value};
use unic_locale::{LanguageIdentifier, Locale};

pub const RULE: &str = "Domain: the product {und,en,fr} x {-,Latn,Cyrl} x {-,US,GB} x {[],[a],[b],[a,b]} = 108 identifiers, squared, x 4 flag pairs (exhaustive) for LanguageIdentifier::matches; the same with {no extension, -u-, -t-, -x- on self, -x- on other, -x- on both} for Locale::matches and for LanguageIdentifier::matches(&Locale); Language::matches on 3 x 3 x 4; proptest pairs of G2 locales including self pairs and one-field-apart pairs. Oracle: the statement's formula evaluated field-wise on the getters' content (equal, or the side flagged as range is empty there); derived laws checked on the library alone (flags false/false <=> ==, symmetry under swapping operands with their flags, reflexivity, monotonicity in each flag); Locale: false if either side has private tags, else the id result regardless of -u-/-t-. Every pair is also evaluated with extensions.other filled by hand on one / both sides (not private use: the id result is expected). The mirrored call with the same flags follows every forward call; all pairs of identifiers with 0-257 variants (every count next to a power of two). Cold start: 1500 | 8000 pairs of identifiers built through the raw constructors are matched as the first library call of a fresh child process each. Non-trivial = the two sides differ in >= 1 field and the result is not the same for all four flag pairs, or a private-use rule case. Distinctness: exhaustive product by construction; generated pairs via a hash set.";

fn field(a_empty: bool, b_empty: bool, eq: bool, ra: bool, rb: bool) -> bool {
    (ra && a_empty) || (rb && b_empty) || eq
}

pub fn expected(a: &LangModel, b: &LangModel, ra: bool, rb: bool) -> bool {
    field(a.language.is_none(), b.language.is_none(), a.language == b.language, ra, rb)
        && field(a.script.is_none(), b.script.is_none(), a.script == b.script, ra, rb)
        && field(a.region.is_none(), b.region.is_none(), a.region == b.region, ra, rb)
        && field(a.variants.is_empty(), b.variants.is_empty(), a.variants == b.variants, ra, rb)
}

fn pair_case(a: &str, b: &str) -> Value {
    json!({"kind": "match-pair", "a": a, "b": b})
}

pub fn check_pair(a: &Locale, b: &Locale, st: &mut Stats, mode: Count) {
    netted(st, || pair_case(&guard(|| a.to_string()).unwrap_or_default(), &guard(|| b.to_string()).unwrap_or_default()), 10, |st| check_pair_inner(a, b, st, mode));
}

fn check_pair_inner(a: &Locale, b: &Locale, st: &mut Stats, mode: Count) {
    st.eval();
    let (sa, sb) = (a.to_string(), b.to_string());
    let case = || pair_case(&sa, &sb);
    let size = sa.len() + sb.len();
    let (ma, mb) = (obs::obs_langid(&a.id), obs::obs_langid(&b.id));
    let private = !a.extensions.private.is_empty() || !b.extensions.private.is_empty();
    let mut results = [false; 4];
    for (k, (ra, rb)) in [(false, false), (true, false), (false, true), (true, true)].iter().enumerate() {
        let exp = expected(&ma, &mb, *ra, *rb);
        let got = match guard(|| a.id.matches(&b.id, *ra, *rb)) {
            Ok(g) => g,
            Err(p) => {
                st.fail(panic_sig(&p), case(), size, "matches panicked");
                return;
            }
        };
        results[k] = got;
        if got != exp {
            let which = if ma.language != mb.language && ma.script == mb.script && ma.region == mb.region && ma.variants == mb.variants {
                "language"
            } else if ma.script != mb.script && ma.language == mb.language && ma.region == mb.region && ma.variants == mb.variants {
                "script"
            } else if ma.region != mb.region && ma.language == mb.language && ma.script == mb.script && ma.variants == mb.variants {
                "region"
            } else if ma.variants != mb.variants && ma.language == mb.language && ma.script == mb.script && ma.region == mb.region {
                "variants"
            } else {
                "several-fields"
            };
            st.fail(format!("langid-matches:differs-in-{which}:flags={}{}", *ra as u8, *rb as u8), case(), size, format!("{sa}.matches({sb}, {ra}, {rb}) = {got}, expected {exp}"));
        }
        // symmetry
        let sym = b.id.matches(&a.id, *rb, *ra);
        if sym != got {
            st.fail("langid-matches:asymmetric", case(), size, format!("a.matches(b,{ra},{rb})={got} but b.matches(a,{rb},{ra})={sym}"));
        }
        // Locale
        let lexp = if private { false } else { exp };
        let lgot = a.matches(b, *ra, *rb);
        // the mirrored question right after it, with the SAME flags (an answer remembered under a key
        // that forgets which operand was which comes back here)
        let lback = b.matches(a, *ra, *rb);
        let lback_exp = if private { false } else { expected(&mb, &ma, *ra, *rb) };
        if lback != lback_exp {
            st.fail("locale-matches:mirrored-call-right-after", case(), size, format!("Locale {sb}.matches({sa}, {ra}, {rb}) = {lback} right after {sa}.matches({sb}, {ra}, {rb}) = {lgot}; expected {lback_exp}"));
        }
        let iback = b.id.matches(&a.id, *ra, *rb);
        if iback != expected(&mb, &ma, *ra, *rb) {
            st.fail("langid-matches:mirrored-call-right-after", case(), size, format!("{}.matches({}, {ra}, {rb}) = {iback} right after the forward call", b.id, a.id));
        }
        if lgot != lexp {
            st.fail(format!("locale-matches:{}", if private { "private-use-rule" } else { "differs-from-id-result" }), case(), size, format!("Locale {sa}.matches({sb}, {ra}, {rb}) = {lgot}, expected {lexp}"));
        }
        // LanguageIdentifier against a Locale
        let x = a.id.matches(b, *ra, *rb);
        if x != exp {
            st.fail("langid-matches-locale", case(), size, format!("{}.matches(&Locale {sb}, {ra}, {rb}) = {x}, expected {exp}", a.id));
        }
        // Language::matches
        let lg = a.id.language.matches(b.id.language, *ra, *rb);
        let le = field(ma.language.is_none(), mb.language.is_none(), ma.language == mb.language, *ra, *rb);
        if lg != le {
            st.fail("language-matches", case(), size, format!("Language {}.matches({}, {ra}, {rb}) = {lg}", a.id.language, b.id.language));
        }
    }
    if results[0] != (a.id == b.id) {
        st.fail("langid-matches:no-range-is-not-equality", case(), size, format!("matches(false,false)={} but == is {}", results[0], a.id == b.id));
    }
    // monotone: switching a flag on never turns true into false
    if (results[0] && !(results[1] && results[2] && results[3])) || (results[1] && !results[3]) || (results[2] && !results[3]) {
        st.fail("langid-matches:flag-not-monotone", case(), size, format!("{results:?}"));
    }
    // a present-but-empty variant list (reachable through the safe constructor
    // from_raw_parts_unchecked, whose documented expectation - deduplicated and ordered - it
    // meets) is an empty field like an absent one
    if ma.variants.is_empty() || mb.variants.is_empty() {
        let twin = |l: &Locale| LanguageIdentifier::from_raw_parts_unchecked(l.id.language, l.id.script, l.id.region, Some(Box::new([])));
        let ta = if ma.variants.is_empty() { twin(a) } else { a.id.clone() };
        let tb = if mb.variants.is_empty() { twin(b) } else { b.id.clone() };
        for (ra, rb) in [(false, false), (true, false), (false, true), (true, true)] {
            let exp = expected(&ma, &mb, ra, rb);
            let got = [ta.matches(&b.id, ra, rb), a.id.matches(&tb, ra, rb), ta.matches(&tb, ra, rb)];
            // with no flag set the result is plain equality, which is representation-sensitive
            // for the unchecked constructor: only the wildcard semantics are judged here
            if (ra || rb) && got.iter().any(|g| *g != exp) && ma.variants.is_empty() != mb.variants.is_empty() {
                st.fail(format!("langid-matches:present-but-empty-variant-list:flags={}{}", ra as u8, rb as u8), case(), size, format!("{sa} vs {sb} with Some([]) on the variant-less side(s): {got:?}, expected {exp}"));
            }
        }
    }
    // a hand-filled `extensions.other` (public field) is neither private-use nor part of the id:
    // "otherwise equals the language-identifier result"
    {
        let fill = |l: &Locale, n: usize| {
            let mut l = l.clone();
            l.extensions.other.insert('a', (0..n).map(|_| "foo".parse().unwrap()).collect());
            l
        };
        for (oa, ob) in [(fill(a, 1), b.clone()), (a.clone(), fill(b, 1)), (fill(a, 2), fill(b, 0))] {
            for (ra, rb) in [(false, false), (true, false), (false, true), (true, true)] {
                let exp = if private { false } else { expected(&ma, &mb, ra, rb) };
                let got = oa.matches(&ob, ra, rb);
                let got2 = oa.id.matches(&ob, ra, rb);
                if got != exp || got2 != expected(&ma, &mb, ra, rb) {
                    st.fail("locale-matches:hand-filled-other-extension", case(), size, format!("{sa} vs {sb} with extensions.other filled by hand on one / both sides, flags ({ra}, {rb}): Locale::matches = {got}, expected {exp}; LanguageIdentifier::matches(&Locale) = {got2}"));
                }
            }
        }
    }
    if !a.id.matches(&a.id, false, false) || !a.id.matches(&a.id, true, true) {
        st.fail("langid-matches:not-reflexive", case(), size, sa.clone());
    }
    let differ = ma != mb;
    let varied = results.iter().any(|r| *r != results[0]);
    if (differ && varied) || private {
        st.class(if private { "private-use-rule-case" } else { "differs-and-flags-matter" });
        st.count(mode, hash_str(&format!("{sa}|{sb}")), case);
    }
}

fn product() -> Vec<String> {
    let mut v = vec![];
    for l in ["und", "en", "fr"] {
        for s in ["", "-Latn", "-Cyrl"] {
            for r in ["", "-US", "-GB"] {
                for va in ["", "-aaaaa", "-bbbbb", "-aaaaa-bbbbb"] {
                    v.push(format!("{l}{s}{r}{va}"));
                }
            }
        }
    }
    v
}

pub fn run(cfg: &Cfg) -> Stats {
    let mut total = Stats::new();
    let ids = product();
    let exts = ["", "-u-ca-buddhist", "-t-en-h0-hybrid", "-x-priv"];
    let mut locs: Vec<Locale> = vec![];
    for i in &ids {
        for e in exts {
            if let Ok(l) = format!("{i}{e}").parse::<Locale>() {
                locs.push(l);
            }
        }
    }
    if locs.len() != ids.len() * exts.len() {
        total.oracle_error(format!("only {} of {} product identifiers parsed", locs.len(), ids.len() * exts.len()));
    }
    let n = (locs.len() * locs.len()) as u64;
    let s = par_range(n, |i, st| {
        let a = &locs[(i / locs.len() as u64) as usize];
        let b = &locs[(i % locs.len() as u64) as usize];
        check_pair(a, b, st, Count::Enum);
    });
    total = total.merge(s);
    total.subspace("108 identifiers x {no extension, -u-, -t-, -x-}, squared, x 4 flag pairs", n * 4, true);
    // random pairs: independent, self, and one-field-apart
    let np = cfg.pick(1_000_000, 5_000_000);
    let strat = (gen::s_ast(), gen::s_ast(), 0u8..12);
    let s = run_strategy(&strat, cfg.seed, "c11-pairs", np, |(a, b, k), st| {
        let mut b2 = b.clone();
        match k {
            0 | 1 => b2 = a.clone(),
            2 => {
                b2 = a.clone();
                b2.id.script = b.id.script.clone();
            }
            3 => {
                b2 = a.clone();
                b2.id.region = b.id.region.clone();
            }
            4 => {
                b2 = a.clone();
                b2.id.variants = b.id.variants.clone();
            }
            5 => {
                b2 = a.clone();
                b2.id.lang = b.id.lang.clone();
            }
            // near misses: the same identifier with the LAST letter of one subtag changed
            // (subtags that share a long prefix: truncation / prefix-comparison slips)
            8..=11 => {
                b2 = a.clone();
                let bump = |s: &str| -> String {
                    let mut v: Vec<u8> = s.as_bytes().to_vec();
                    if let Some(l) = v.last_mut() {
                        *l = match *l {
                            b'z' => b'y',
                            b'9' => b'8',
                            b'a'..=b'y' | b'0'..=b'8' => *l + 1,
                            _ => *l,
                        };
                    }
                    String::from_utf8_lossy(&v).to_string()
                };
                match k {
                    8 if a.id.lang != "und" => b2.id.lang = bump(&a.id.lang),
                    9 => b2.id.script = a.id.script.as_deref().map(bump),
                    10 => b2.id.region = a.id.region.as_deref().map(bump),
                    _ => {
                        if let Some(v) = b2.id.variants.last_mut() {
                            *v = bump(v);
                        }
                    }
                }
            }
            _ => {}
        }
        if *k == 1 {
            b2.private.clear();
            b2.attrs.clear();
        }
        let (Ok(Ok(la)), Ok(Ok(lb))) = (guard(|| Locale::from_bytes(&a.render())), guard(|| Locale::from_bytes(&b2.render()))) else {
            st.class("pair-not-accepted(skipped)");
            return;
        };
        check_pair(&la, &lb, st, Count::Hash);
    });
    total = total.merge(s);
    total.subspace("pairs of G2 locales: independent, identical, one-field-apart (proptest)", np, false);
    // identifiers with many variants: 0 .. 257 of them, around every power of two (a count kept in
    // a narrow integer or shifted into a packed summary wraps exactly there)
    {
        let counts = [0usize, 1, 2, 7, 8, 9, 15, 16, 17, 31, 32, 33, 63, 64, 65, 127, 128, 129, 255, 256, 257];
        let mk = |n: usize, shift: usize| -> Option<Locale> {
            let vs: Vec<unic_locale::subtags::Variant> = (0..n).map(|i| format!("v{:05}", i + shift).parse().ok()).collect::<Option<Vec<_>>>()?;
            let lang: unic_locale::subtags::Language = "en".parse().ok()?;
            Some(Locale::from_parts(lang, None, None, &vs, None))
        };
        let mut many: Vec<Locale> = vec![];
        for n in counts {
            many.extend(mk(n, 0));
            if n > 0 {
                many.extend(mk(n, 1));
            }
        }
        let n = (many.len() * many.len()) as u64;
        let s = par_range(n, |i, st| check_pair(&many[(i / many.len() as u64) as usize], &many[(i % many.len() as u64) as usize], st, Count::Hash));
        total = total.merge(s);
        total.subspace("identifiers with 0-257 variants (every count next to a power of two), all pairs x 4 flag pairs", n * 4, true);
    }
    // cold start (G28): matches() as the first library call of a fresh process, on raw-constructed values
    let s = crate::props::cold::for_each_probe(cfg.pick(1_500, 8_000), "matches-first", &|a, b, obs, st| crate::props::cold::check_matches(a, b, obs, st, "matches-first"));
    total = total.merge(s);
    total
}

pub fn replay(case: &Value, st: &mut Stats) {
    if let Some((a, b, order)) = crate::props::cold::replay_pair(case) {
        if let Ok(obs) = crate::props::cold::probe(&a, &b, &order) {
            crate::props::cold::check_matches(&a, &b, &obs, st, &order);
        }
        return;
    }
    let (Some(a), Some(b)) = (case["a"].as_str(), case["b"].as_str()) else { return };
    if let (Ok(a), Ok(b)) = (a.parse::<Locale>(), b.parse::<Locale>()) {
        check_pair(&a, &b, st, Count::Hash);
    }
    let _ = LanguageIdentifier::default();
}
