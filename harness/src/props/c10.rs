//! C10 — mutator and getter histories behave like a plain set/map model.

use crate::gen;
use crate::likely::{Expect, Triple};
use crate::model::{self, LangModel, LocaleModel};
use crate::obs;
use crate::ops::{self, Op, Out};
use crate::run::*;
use proptest::prelude::*;
use serde_json::Value;
use unic_locale::Locale;

pub const RULE: &str = "Domain: histories of public API calls (assign language/script/region from parsed text, set/clear/has variants, set/remove/clear/get keywords, set/remove/has/clear attributes, set/clear tlang, set/remove/clear/get tfields, add/remove/has/clear private tags, maximize, minimize; also *loc = loc.clone(), clone_from of a parsed locale / language identifier / extension map / each extension list and a mem::take round trip of the id) with valid, colliding, boundary and invalid arguments, starting from Locale::default() or from a parsed well-formed locale: every sequence of length <= 3 (quick) / <= 4 (thorough) over a fixed 35-operation alphabet from two start states (exhaustive), proptest-generated sequences of length 0-40 from random starts, focused sequences on one collection, and bulk sequences of 40-160 operations on one collection with generated arguments (collections of several dozen entries; removals and queries name earlier insertions). After every step the call's result, every getter, is_empty of each list and of the map, has_*, to_string() == canon(model), the strict canonical recogniser, and parse(to_string()) == value are compared with a set/map model; an Err step must leave the value unchanged. Non-trivial = the history holds >= 2 successful insertions into one collection followed by a removal or membership query on it. Exhaustive sequences distinct by construction; random ones counted through a hash set.";

#[cfg(feature = "likely")]
pub struct LikelyRef {
    pub h: crate::props::triples::Handles,
    lang_ix: std::collections::HashMap<String, u16>,
    script_ix: std::collections::HashMap<String, u16>,
    region_ix: std::collections::HashMap<String, u16>,
}

#[cfg(feature = "likely")]
impl LikelyRef {
    pub fn load(cfg: &Cfg) -> Result<Self, String> {
        let h = crate::props::triples::Handles::load(cfg)?;
        let ix = |v: &Vec<String>| v.iter().enumerate().map(|(i, s)| (s.clone(), i as u16)).collect();
        Ok(LikelyRef { lang_ix: ix(&h.lk.uni.langs), script_ix: ix(&h.lk.uni.scripts), region_ix: ix(&h.lk.uni.regions), h })
    }
    /// Some(Some(x)) = must change to x; Some(None) = must report unchanged; None = either
    pub fn expect(&self, id: &LangModel, maximize: bool) -> Option<Option<LangModel>> {
        let lk = &self.h.lk;
        let unk_l = (lk.uni.n_known_langs) as u16;
        let unk_s = (lk.uni.n_known_scripts) as u16;
        let unk_r = (lk.uni.n_known_regions) as u16;
        let t = Triple {
            l: match &id.language {
                None => 0,
                Some(l) => *self.lang_ix.get(l).unwrap_or(&unk_l),
            },
            s: match &id.script {
                None => 0,
                Some(s) => *self.script_ix.get(s).unwrap_or(&unk_s),
            },
            r: match &id.region {
                None => 0,
                Some(r) => *self.region_ix.get(r).unwrap_or(&unk_r),
            },
        };
        let back = |v: Triple| LangModel {
            language: if v.l == 0 { None } else if t.l != 0 { id.language.clone() } else { Some(lk.uni.langs[v.l as usize].clone()) },
            script: if v.s == 0 { None } else if t.s != 0 && v.s == t.s { id.script.clone() } else { Some(lk.uni.scripts[v.s as usize].clone()) },
            region: if v.r == 0 { None } else if t.r != 0 && v.r == t.r { id.region.clone() } else { Some(lk.uni.regions[v.r as usize].clone()) },
            variants: id.variants.clone(),
        };
        if maximize {
            match lk.expect_max(t) {
                Expect::Exact(Some(v)) => Some(Some(back(v))),
                Expect::Exact(None) => Some(None),
                Expect::NoneOrFallback => None,
            }
        } else {
            // a fallback could only be met for a language without entries of its own
            let known = t.l != 0 && lk.lang_only.contains_key(&t.l);
            if !known {
                if matches!(lk.expect_max(t), Expect::Exact(None)) && !(t.l != 0 && t.s != 0 && t.r != 0) {
                    return Some(None);
                }
                return None;
            }
            Some(lk.strict_min(t).map(back))
        }
    }
}

#[cfg(not(feature = "likely"))]
pub struct LikelyRef;
#[cfg(not(feature = "likely"))]
impl LikelyRef {
    pub fn load(_cfg: &Cfg) -> Result<Self, String> {
        Ok(LikelyRef)
    }
}

fn field_diff(o: &LocaleModel, m: &LocaleModel) -> &'static str {
    if o.id.language != m.id.language {
        "language"
    } else if o.id.script != m.id.script {
        "script"
    } else if o.id.region != m.id.region {
        "region"
    } else if o.id.variants != m.id.variants {
        "variants"
    } else if o.attrs != m.attrs {
        "attributes"
    } else if o.keywords != m.keywords {
        "keywords"
    } else if o.tlang != m.tlang {
        "tlang"
    } else if o.tfields != m.tfields {
        "tfields"
    } else {
        "private"
    }
}

/// the adapters of an `ExactSizeIterator` getter must tell one story: `len`, `size_hint`, `count`,
/// `last`, `nth` and the length after one `next` against the collected sequence
fn iter_laws<I, T>(make: impl Fn() -> I) -> Option<String>
where
    I: ExactSizeIterator<Item = T>,
    T: PartialEq + std::fmt::Debug,
{
    let all: Vec<T> = make().collect();
    let n = all.len();
    if make().len() != n {
        return Some(format!("len() = {} but the iterator yields {n} items", make().len()));
    }
    if make().size_hint() != (n, Some(n)) {
        return Some(format!("size_hint() = {:?} for {n} items", make().size_hint()));
    }
    if make().count() != n {
        return Some(format!("count() = {} for {n} items", make().count()));
    }
    if make().last().as_ref() != all.last() {
        return Some(format!("last() = {:?}, collected last {:?}", make().last(), all.last()));
    }
    for k in [0, n / 2, n.saturating_sub(1), n] {
        if make().nth(k).as_ref() != all.get(k) {
            return Some(format!("nth({k}) = {:?}, collected {:?}", make().nth(k), all.get(k)));
        }
    }
    let mut it = make();
    if it.next().is_some() && it.len() != n - 1 {
        return Some(format!("len() after one next() = {} for {n} items", it.len()));
    }
    // last() of a partly / wholly consumed iterator
    let mut it = make();
    let first = it.next();
    let want = if n >= 2 { all.last() } else { None };
    if first.is_some() && it.last().as_ref() != want {
        return Some(format!("last() after one next() on {n} items differs from the collected last item"));
    }
    let mut it = make();
    while it.next().is_some() {}
    if it.last().is_some() {
        return Some(format!("last() of an exhausted iterator over {n} items is Some"));
    }
    // driven past the end: nothing left, and it says so
    for k in [n, n + 2] {
        let mut it = make();
        let _ = it.nth(k);
        if it.len() != 0 || it.size_hint() != (0, Some(0)) || it.next().is_some() {
            return Some(format!("after nth({k}) on {n} items: len() = {}, size_hint() = {:?}", it.len(), it.size_hint()));
        }
    }
    let mut it = make().skip(n + 1);
    if it.next().is_some() || it.size_hint().1 != Some(0) {
        return Some(format!("skip({}) on {n} items still yields / promises items", n + 1));
    }
    None
}

/// Runs one history; returns the end state (None if the start did not parse or a step panicked).
pub fn check_history(lr: &LikelyRef, start: &[u8], ops_: &[Op], st: &mut Stats, mode: Count) -> Option<Locale> {
    let mut out = None;
    netted(st, || ops::history_case(start, ops_), ops_.len() * 100 + start.len(), |st| out = check_history_inner(lr, start, ops_, st, mode));
    out
}

fn check_history_inner(lr: &LikelyRef, start: &[u8], ops_: &[Op], st: &mut Stats, mode: Count) -> Option<Locale> {
    st.eval();
    let case = || ops::history_case(start, ops_);
    let size = ops_.len() * 100 + start.len();
    let (mut loc, mut m) = if start.is_empty() {
        (Locale::default(), LocaleModel::default())
    } else {
        let l = match guard(|| Locale::from_bytes(start)) {
            Ok(Ok(l)) => l,
            _ => {
                st.class("start-not-accepted");
                return None;
            }
        };
        let toks = model::split(start);
        let Ok(p) = model::parse_locale_tokens(&toks, false) else {
            st.class("start-not-wellformed");
            return None;
        };
        if p.dup_key || p.has_other {
            st.class("start-out-of-scope");
            return None;
        }
        (l, p.model.without_true())
    };
    // start state must already agree (C03's business, but a mismatch would confuse every step)
    if obs::obs_locale(&loc).without_true() != m {
        st.class("start-state-differs(C03)");
        return None;
    }
    let mut inserted = [0u32; 6];
    let mut nontrivial = false;
    let mut classes: Vec<&'static str> = vec![];
    let mut had_nonempty_error = false;
    let mut biggest = 0usize;
    for (i, op) in ops_.iter().enumerate() {
        let before = loc.clone();
        let before_s = loc.to_string();
        let lo = match guard(|| ops::apply_lib(&mut loc, op)) {
            Ok(o) => o,
            Err(p) => {
                st.fail(format!("{}:{}", ops::op_name(op), panic_sig(&p)), case(), size, format!("step {i} {op:?} panicked: {p:?}"));
                return None;
            }
        };
        let lib_id = obs::obs_langid(&loc.id);
        #[cfg(feature = "likely")]
        let f = |id: &LangModel, mx: bool| lr.expect(id, mx);
        #[cfg(feature = "likely")]
        let lf: Option<ops::LikelyFn> = Some(&f);
        #[cfg(not(feature = "likely"))]
        let lf: Option<ops::LikelyFn> = {
            let _ = lr;
            None
        };
        let id_before = m.id.clone();
        let mo = ops::apply_model(&mut m, op, lf, Some(&lib_id));
        let name = ops::op_name(op);
        if lo != mo {
            st.fail(format!("step-result:{name}"), case(), size, format!("step {i} {op:?}: library returned {lo:?}, model {mo:?} (state before: {before_s})"));
            return None;
        }
        #[cfg(feature = "likely")]
        if matches!(op, Op::Maximize) && lf.is_some() && lr.expect(&id_before, true).is_none() && lo == Out::Bool(true) {
            // the either case: the adopted answer must keep the given subtags and fill all three
            let keeps = id_before.language.as_ref().map_or(true, |l| Some(l) == lib_id.language.as_ref())
                && id_before.script.as_ref().map_or(true, |l| Some(l) == lib_id.script.as_ref())
                && id_before.region.as_ref().map_or(true, |l| Some(l) == lib_id.region.as_ref());
            if !keeps || lib_id.language.is_none() || lib_id.script.is_none() || lib_id.region.is_none() {
                st.fail("maximize:fallback-constraints", case(), size, format!("step {i}: {} -> {}", model::canon_langid(&id_before), model::canon_langid(&lib_id)));
                return None;
            }
            st.class("maximize-either-adopted");
        }
        let _ = &id_before;
        let o = obs::obs_locale(&loc);
        if o != m {
            st.fail(
                format!("state-mismatch:{name}:{}", field_diff(&o, &m)),
                case(),
                size,
                format!("after step {i} {op:?}: library value prints {:?}, model prints {:?}", loc.to_string(), model::canon_locale(&m)),
            );
            return None;
        }
        let errored = matches!(lo, Out::ArgRejected | Out::Res(Err(())) | Out::ResBool(Err(())) | Out::ResList(Err(())));
        if errored {
            if loc != before || loc.to_string() != before_s {
                st.fail(format!("error-step-changed-value:{name}"), case(), size, format!("step {i} {op:?} returned an error but the value changed from {before_s:?} to {:?}", loc.to_string()));
                return None;
            }
            if !before.extensions.is_empty() && !had_nonempty_error {
                had_nonempty_error = true;
                classes.push("key:error-step-after-non-empty-state");
            }
        }
        if !ops::is_mutation(op) && (loc != before || loc.to_string() != before_s) {
            st.fail(format!("getter-changed-value:{name}"), case(), size, format!("step {i} {op:?}"));
            return None;
        }
        // invariants
        let e = &loc.extensions;
        let mut bad = vec![];
        if e.unicode.is_empty() != (m.attrs.is_empty() && m.keywords.is_empty()) {
            bad.push("unicode.is_empty");
        }
        if e.transform.is_empty() != (m.tlang.is_none() && m.tfields.is_empty()) {
            bad.push("transform.is_empty");
        }
        if e.private.is_empty() != m.private.is_empty() {
            bad.push("private.is_empty");
        }
        if e.is_empty() != !m.has_ext() {
            bad.push("extensions.is_empty");
        }
        if loc.id.variants().len() != m.id.variants.len() {
            bad.push("variants().len()");
        }
        if e.unicode.attributes().len() != m.attrs.len() || e.unicode.keyword_keys().len() != m.keywords.len() || e.transform.tfield_keys().len() != m.tfields.len() || e.private.tags().len() != m.private.len() {
            bad.push("ExactSizeIterator::len");
        }
        for a in &m.attrs {
            if e.unicode.has_attribute(a.as_str()).ok() != Some(true) {
                bad.push("has_attribute(member)");
            }
        }
        for t in &m.private {
            if e.private.has_tag(t.as_str()).ok() != Some(true) {
                bad.push("has_tag(member)");
            }
        }
        for v in &m.id.variants {
            if let Ok(v) = v.parse() {
                if !loc.id.has_variant(v) {
                    bad.push("has_variant(member)");
                }
            }
        }
        let laws = [
            ("variants()", iter_laws(|| loc.id.variants())),
            ("attributes()", iter_laws(|| e.unicode.attributes())),
            ("keyword_keys()", iter_laws(|| e.unicode.keyword_keys())),
            ("tfield_keys()", iter_laws(|| e.transform.tfield_keys())),
            ("tags()", iter_laws(|| e.private.tags())),
        ];
        let mut laws: Vec<(&str, Option<String>)> = laws.into_iter().collect();
        for k in m.keywords.keys().take(3) {
            if e.unicode.keyword(k.as_str()).is_ok() {
                laws.push(("keyword(key)", iter_laws(|| e.unicode.keyword(k.as_str()).ok().unwrap())));
            }
        }
        for k in m.tfields.keys().take(3) {
            if e.transform.tfield(k.as_str()).is_ok() {
                laws.push(("tfield(key)", iter_laws(|| e.transform.tfield(k.as_str()).ok().unwrap())));
            }
        }
        for (what, l) in laws {
            if let Some(why) = l {
                st.fail(format!("iterator-adapters:{what}"), case(), size, format!("after step {i} {op:?}: {what}: {why}"));
                return None;
            }
        }
        if !bad.is_empty() {
            st.fail(format!("invariant:{}", bad[0]), case(), size, format!("after step {i} {op:?}: {bad:?} disagree with the model {}", model::canon_locale(&m)));
            return None;
        }
        let s = loc.to_string();
        let c = model::canon_locale(&m);
        if s != c {
            st.fail(format!("to_string-mismatch:{name}"), case(), size, format!("after step {i} {op:?}: to_string {s:?}, canon(model) {c:?}"));
            return None;
        }
        if let Err(why) = model::is_canonical_locale(&s) {
            st.fail(format!("not-canonical:{name}"), case(), size, format!("after step {i} {op:?}: {s:?}: {why}"));
            return None;
        }
        match guard(|| Locale::from_bytes(s.as_bytes())) {
            Ok(Ok(l2)) => {
                if l2 != loc {
                    st.fail(format!("reparse-differs:{name}"), case(), size, format!("after step {i} {op:?}: parse({s:?}) != value (re-parsed prints {:?})", l2.to_string()));
                    return None;
                }
            }
            Ok(Err(e)) => {
                st.fail(format!("reparse-fails:{name}"), case(), size, format!("after step {i} {op:?}: parse({s:?}) -> {e:?}"));
                return None;
            }
            Err(p) => {
                st.fail(format!("reparse:{}", panic_sig(&p)), case(), size, format!("after step {i}: parse({s:?}) panicked"));
                return None;
            }
        }
        biggest = biggest.max(m.attrs.len()).max(m.keywords.len()).max(m.tfields.len()).max(m.private.len()).max(m.id.variants.len());
        // non-triviality bookkeeping
        let col = ops::collection(op) as usize;
        if col > 0 {
            let success_insert = matches!(
                (op, &lo),
                (Op::SetVariants(_), Out::Unit) | (Op::SetKeyword(..), Out::Res(Ok(()))) | (Op::SetAttribute(_), Out::Res(Ok(()))) | (Op::SetTfield(..), Out::Res(Ok(()))) | (Op::AddTag(_), Out::Res(Ok(())))
            );
            if success_insert {
                inserted[col] += 1;
                if let Op::SetVariants(v) = op {
                    if v.is_empty() && before.id.variants().len() > 0 {
                        classes.push("key:set_variants([])-after-non-empty");
                    }
                }
                if let Op::AddTag(t) = op {
                    let l = t.to_ascii_lowercase();
                    if before.extensions.private.tags().any(|x| x == l) {
                        classes.push("key:duplicate-tag");
                    }
                }
            } else if inserted[col] >= 2 {
                nontrivial = true;
            }
        }
    }
    if nontrivial {
        st.class("nontrivial-history");
        let h = hash_str(&format!("{}|{:?}", String::from_utf8_lossy(start), ops_));
        st.count(mode, h, case);
    }
    if biggest > 64 {
        classes.push("size: a collection held more than 64 entries");
    } else if biggest > 32 {
        classes.push("size: a collection held 33-64 entries");
    } else if biggest > 16 {
        classes.push("size: a collection held 17-32 entries");
    }
    classes.sort();
    classes.dedup();
    for c in classes {
        st.class(c);
    }
    Some(loc)
}

pub const FIXED_START: &[u8] = b"en-Latn-US-valencia-t-en-k0-bbb-u-bbb-ca-aaa-x-bbb";

pub fn s_history() -> impl Strategy<Value = (Vec<u8>, Vec<Op>)> + Sync {
    (
        prop_oneof![2 => Just(Vec::new()), 3 => gen::s_ast().prop_map(|a| a.render_plain())],
        proptest::collection::vec(ops::s_op(), 0..40),
    )
}

/// histories whose operations all concern one collection (variants, attributes, keywords,
/// tlang, tfields, private tags, or the language / script / region fields)
pub fn s_focused_history() -> impl Strategy<Value = (Vec<u8>, Vec<Op>)> + Sync {
    (
        prop_oneof![2 => Just(Vec::new()), 1 => Just(FIXED_START.to_vec()), 2 => gen::s_ast().prop_map(|a| a.render_plain())],
        any::<u8>(),
        proptest::collection::vec(ops::s_op(), 30..120),
    )
        .prop_map(|(start, c, v)| {
            let mut kinds: Vec<u8> = v.iter().map(ops::collection).collect();
            kinds.sort();
            kinds.dedup();
            let want = kinds[(c as usize * kinds.len()) >> 8];
            let ops_: Vec<Op> = v.into_iter().filter(|o| ops::collection(o) == want).take(30).collect();
            (start, ops_)
        })
}

/// bulk histories: 40-160 operations on ONE collection with generated (not pooled) arguments, so
/// that the collection grows well past 16 / 32 / 64 entries before removals and queries hit it
/// (binary-search boundaries, small-vector spill-over, "sort only short lists" fast paths).
/// Removal and query arguments are drawn from the arguments inserted earlier in the same history.
pub fn s_bulk_history() -> impl Strategy<Value = (Vec<u8>, Vec<Op>)> + Sync {
    use proptest::sample::Index;
    let item = (0u8..10, any::<Index>(), gen::s_value(), gen::s_key(), gen::s_tkey(), gen::s_private(), gen::s_variant(), any::<u64>());
    (0u8..5, prop_oneof![2 => Just(Vec::new()), 1 => Just(FIXED_START.to_vec())], proptest::collection::vec(item, 40..160)).prop_map(|(kind, start, items)| {
        let mut ops_: Vec<Op> = vec![];
        let mut seen: Vec<String> = vec![];
        let mut variants: Vec<String> = vec![];
        let case = |s: &str, m: u64| -> String { s.chars().enumerate().map(|(i, c)| if (m >> (i % 64)) & 1 == 1 { c.to_ascii_uppercase() } else { c }).collect() };
        for (what, ix, val, key, tkey, tag, var, mask) in items {
            let old = if seen.is_empty() { None } else { Some(seen[ix.index(seen.len())].clone()) };
            let insert = what < 6 || old.is_none();
            match kind {
                0 => {
                    // attributes
                    if insert {
                        seen.push(val.clone());
                        ops_.push(Op::SetAttribute(case(&val, mask)));
                    } else if what < 8 {
                        ops_.push(Op::RemoveAttribute(case(&old.unwrap(), mask)));
                    } else {
                        ops_.push(Op::HasAttribute(case(&old.unwrap(), mask)));
                    }
                }
                1 => {
                    if insert {
                        seen.push(key.clone());
                        ops_.push(Op::SetKeyword(case(&key, mask), vec![val]));
                    } else if what < 8 {
                        ops_.push(Op::RemoveKeyword(case(&old.unwrap(), mask)));
                    } else {
                        ops_.push(Op::Keyword(case(&old.unwrap(), mask)));
                    }
                }
                2 => {
                    if insert {
                        seen.push(tkey.clone());
                        ops_.push(Op::SetTfield(case(&tkey, mask), vec![val]));
                    } else if what < 8 {
                        ops_.push(Op::RemoveTfield(case(&old.unwrap(), mask)));
                    } else {
                        ops_.push(Op::Tfield(case(&old.unwrap(), mask)));
                    }
                }
                3 => {
                    if insert {
                        seen.push(tag.clone());
                        ops_.push(Op::AddTag(case(&tag, mask)));
                    } else if what < 8 {
                        ops_.push(Op::RemoveTag(case(&old.unwrap(), mask)));
                    } else {
                        ops_.push(Op::HasTag(case(&old.unwrap(), mask)));
                    }
                }
                _ => {
                    // variants: the list is replaced as a whole, so grow it step by step
                    if insert {
                        variants.push(case(&var, mask));
                        seen.push(var.clone());
                        ops_.push(Op::SetVariants(variants.clone()));
                    } else if what < 8 {
                        let o = old.unwrap();
                        variants.retain(|v| !v.eq_ignore_ascii_case(&o));
                        ops_.push(Op::SetVariants(variants.clone()));
                    } else {
                        ops_.push(Op::HasVariant(case(&old.unwrap(), mask)));
                    }
                }
            }
        }
        (start, ops_)
    })
}

pub fn for_each_history(cfg: &Cfg, tag: &str, f: &(dyn Fn(&[u8], &[Op], &mut Stats, Count) + Sync)) -> Stats {
    let mut total = Stats::new();
    let full_alpha = ops::op_alphabet();
    let maxlen = cfg.pick(3u32, 4u32);
    for start in [&b""[..], FIXED_START] {
        for len in 1..=maxlen {
            // length 4 (thorough tier) over the first 30 operations only: 35^4 x 2 starts x 2 builds took
            // the run to within minutes of the driver's cap on a loaded machine
            let alpha: Vec<Op> = if len >= 4 { full_alpha[..30.min(full_alpha.len())].to_vec() } else { full_alpha.clone() };
            let n = alpha.len() as u64;
            let cnt = n.pow(len);
            let s = par_range(cnt, |mut i, st| {
                let mut seq = Vec::with_capacity(len as usize);
                for _ in 0..len {
                    seq.push(alpha[(i % n) as usize].clone());
                    i /= n;
                }
                f(start, &seq, st, Count::Enum);
            });
            total = total.merge(s);
            total.subspace(
                &format!("all sequences of {len} operations over the {n}-operation alphabet from {}", if start.is_empty() { "Locale::default()" } else { "a parsed locale with all extensions" }),
                cnt,
                true,
            );
        }
    }
    let nr = cfg.pick(300_000, 2_000_000);
    let s = run_strategy(&s_history(), cfg.seed, &format!("{tag}-g7"), nr, |(start, ops_), st| f(start, ops_, st, Count::Hash));
    total = total.merge(s);
    total.subspace("G7 random histories, length 0-40, random start (proptest)", nr, false);
    // histories that stay on one collection (deep add / remove / query interplay on it)
    let nf = cfg.pick(200_000, 1_500_000);
    let s = run_strategy(&s_focused_history(), cfg.seed, &format!("{tag}-g7-focused"), nf, |(start, ops_), st| f(start, ops_, st, Count::Hash));
    total = total.merge(s);
    total.subspace("G7 focused histories: 2-30 operations on a single collection, random start (proptest)", nf, false);
    let nb = cfg.pick(6_000, 40_000);
    let s = run_strategy(&s_bulk_history(), cfg.seed, &format!("{tag}-g7-bulk"), nb, |(start, ops_), st| f(start, ops_, st, Count::Hash));
    total = total.merge(s);
    total.subspace("G7 bulk histories: 40-160 operations on one collection with generated arguments, removals / queries of earlier insertions (proptest)", nb, false);
    total
}

pub fn run(cfg: &Cfg) -> Stats {
    let lr = match LikelyRef::load(cfg) {
        Ok(l) => l,
        Err(e) => {
            let mut st = Stats::new();
            st.oracle_error(e);
            return st;
        }
    };
    for_each_history(cfg, "c10", &|start, ops_, st, mode| {
        check_history(&lr, start, ops_, st, mode);
    })
}

pub fn replay(case: &Value, st: &mut Stats) {
    let cfg = Cfg { prop: "C10".into(), tier: Tier::Quick, seed: 0, verif: "/verif".into(), repo: std::env::var("VERIF_REPO").unwrap_or("/repo".into()).into(), start: std::time::Instant::now() };
    let Ok(lr) = LikelyRef::load(&cfg) else { return };
    if let Some((start, ops_)) = ops::history_from_case(case) {
        check_history(&lr, &start, &ops_, st, Count::Hash);
    }
}
