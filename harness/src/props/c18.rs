//! C18 — the bundled lookup tables are exactly what the CLDR source data determine.
//! Reads the *compiled* statics through the cfg(unic_locale_verif) re-exports.
#![cfg(feature = "likely")]

use crate::likely::{Dir, Layout, Likely, Triple};
use crate::props::triples::*;
use crate::run::*;
use proptest::prelude::*;
use serde_json::{json, Value};
use std::collections::{BTreeMap, BTreeSet};
use unic_langid_impl::likelysubtags::verif_tables as tb;
use unic_langid_impl::verif_layout_table as lt;

pub const RULE: &str = "Domain: every entry of the six compiled likely-subtags statics (LANG_ONLY, LANG_REGION, LANG_SCRIPT, SCRIPT_REGION, SCRIPT_ONLY, REGION_ONLY), CLDR_VERSION and the four character-direction constants, read through the cfg(unic_locale_verif) re-export (exhaustive, about 8 270 entries); plus look-ups: every (language, script, -), (language, -, region) and (und, script, region) over an extended subtag universe (all two-letter and many three-letter languages, neighbours of the known scripts, every well-formed region), full triples around every two-component key (thorough: the whole core universe) and proptest-generated ones. Oracle: an independent re-derivation from unic-langid-impl/data/likelySubtags.json and the layout.json files at run time: per table the decoded key -> value map equals the JSON sub-map of that key shape in both directions (one entry per CLDR key, none extra, the CLDR value; the table generator's documented dropping of a ZZ region is applied to the expected value); keys strictly increasing in the (u64, u32) tuple order the binary search uses, and a binary search with the library's own key projection finds every entry at its index; every stored integer decodes (little-endian, zero padded) to a canonical-case well-formed language / script / region subtag and survives from_raw_unchecked + as_str unchanged; CLDR_VERSION == _cldrVersion; the direction constants equal the script / language sets derived from the layout files. Look-up part: a hash index built row by row from the compiled tables (no ordering assumption), with the cascade of C06 on top, must agree with likelysubtags::maximize on the components the query left open. Non-trivial = every table entry (distinct by construction) and every generated look-up that hits an entry (hash set).";

type V = (Option<u64>, Option<u32>, Option<u32>);

fn dec64(v: u64) -> Vec<u8> {
    v.to_le_bytes().iter().cloned().take_while(|b| *b != 0).collect()
}
fn dec32(v: u32) -> Vec<u8> {
    v.to_le_bytes().iter().cloned().take_while(|b| *b != 0).collect()
}
fn wf_lang(b: &[u8]) -> bool {
    matches!(b.len(), 2 | 3 | 5..=8) && b.iter().all(|c| c.is_ascii_lowercase())
}
fn wf_script(b: &[u8]) -> bool {
    b.len() == 4 && b[0].is_ascii_uppercase() && b[1..].iter().all(|c| c.is_ascii_lowercase())
}
fn wf_region(b: &[u8]) -> bool {
    (b.len() == 2 && b.iter().all(|c| c.is_ascii_uppercase())) || (b.len() == 3 && b.iter().all(|c| c.is_ascii_digit()))
}

#[derive(Clone, Copy)]
enum K {
    L(u64),
    LR(u64, u32),
    LS(u64, u32),
    SR(u32, u32),
    S(u32),
    R(u32),
}

struct Row {
    table: &'static str,
    idx: usize,
    key: K,
    val: V,
}

fn rows() -> Vec<Row> {
    let mut v = vec![];
    for (i, (l, val)) in tb::LANG_ONLY.iter().enumerate() {
        v.push(Row { table: "LANG_ONLY", idx: i, key: K::L(*l), val: *val });
    }
    for (i, (l, r, val)) in tb::LANG_REGION.iter().enumerate() {
        v.push(Row { table: "LANG_REGION", idx: i, key: K::LR(*l, *r), val: *val });
    }
    for (i, (l, s, val)) in tb::LANG_SCRIPT.iter().enumerate() {
        v.push(Row { table: "LANG_SCRIPT", idx: i, key: K::LS(*l, *s), val: *val });
    }
    for (i, (s, r, val)) in tb::SCRIPT_REGION.iter().enumerate() {
        v.push(Row { table: "SCRIPT_REGION", idx: i, key: K::SR(*s, *r), val: *val });
    }
    for (i, (s, val)) in tb::SCRIPT_ONLY.iter().enumerate() {
        v.push(Row { table: "SCRIPT_ONLY", idx: i, key: K::S(*s), val: *val });
    }
    for (i, (r, val)) in tb::REGION_ONLY.iter().enumerate() {
        v.push(Row { table: "REGION_ONLY", idx: i, key: K::R(*r), val: *val });
    }
    v
}

fn txt(b: &[u8]) -> String {
    String::from_utf8_lossy(b).to_string()
}

/// decoded textual key ("en-Latn", "und-US", ...) or the reason it is ill-formed
fn key_text(k: K, table: &str) -> Result<String, String> {
    let l = |x: u64| {
        let b = dec64(x);
        if wf_lang(&b) && (b != b"und" || table == "LANG_ONLY") {
            Ok(txt(&b))
        } else {
            Err(format!("language integer {x} decodes to {:?}", txt(&b)))
        }
    };
    let s = |x: u32| {
        let b = dec32(x);
        if wf_script(&b) {
            Ok(txt(&b))
        } else {
            Err(format!("script integer {x} decodes to {:?}", txt(&b)))
        }
    };
    let r = |x: u32| {
        let b = dec32(x);
        if wf_region(&b) {
            Ok(txt(&b))
        } else {
            Err(format!("region integer {x} decodes to {:?}", txt(&b)))
        }
    };
    Ok(match k {
        K::L(a) => l(a)?,
        K::LR(a, b) => format!("{}-{}", l(a)?, r(b)?),
        K::LS(a, b) => format!("{}-{}", l(a)?, s(b)?),
        K::SR(a, b) => format!("und-{}-{}", s(a)?, r(b)?),
        K::S(a) => format!("und-{}", s(a)?),
        K::R(a) => format!("und-{}", r(a)?),
    })
}

fn val_text(v: V) -> Result<String, String> {
    let mut out = vec![];
    match v.0 {
        Some(x) => {
            let b = dec64(x);
            if !wf_lang(&b) || b == b"und" {
                return Err(format!("value language integer {x} decodes to {:?}", txt(&b)));
            }
            out.push(txt(&b));
        }
        None => out.push("und".to_string()),
    }
    if let Some(x) = v.1 {
        let b = dec32(x);
        if !wf_script(&b) {
            return Err(format!("value script integer {x} decodes to {:?}", txt(&b)));
        }
        out.push(txt(&b));
    }
    if let Some(x) = v.2 {
        let b = dec32(x);
        if !wf_region(&b) {
            return Err(format!("value region integer {x} decodes to {:?}", txt(&b)));
        }
        out.push(txt(&b));
    }
    Ok(out.join("-"))
}

fn row_case(r: &Row) -> Value {
    json!({"kind": "table-row", "table": r.table, "index": r.idx, "key": key_text(r.key, r.table).unwrap_or_else(|e| e), "value": val_text(r.val).unwrap_or_else(|e| e)})
}

fn json_shape(k: &str) -> &'static str {
    let toks: Vec<&str> = k.split('-').collect();
    let is_s = |t: &str| t.len() == 4 && t.bytes().all(|b| b.is_ascii_alphabetic());
    match (toks[0] == "und", toks.len()) {
        (_, 1) => "LANG_ONLY",
        (false, 2) if is_s(toks[1]) => "LANG_SCRIPT",
        (false, 2) => "LANG_REGION",
        (true, 2) if is_s(toks[1]) => "SCRIPT_ONLY",
        (true, 2) => "REGION_ONLY",
        (true, 3) => "SCRIPT_REGION",
        _ => "?",
    }
}

/// the value the generator is documented to store: a ZZ region is dropped
fn expected_value(v: &str) -> String {
    v.strip_suffix("-ZZ").unwrap_or(v).to_string()
}

fn raw_roundtrip(r: &Row) -> Result<(), String> {
    use unic_langid_impl::subtags::{Language, Region, Script};
    let chk_l = |x: u64| unsafe {
        let l = Language::from_raw_unchecked(x);
        let back: Option<u64> = l.into();
        if dec64(x) == b"und" {
            return Ok(());
        }
        if back != Some(x) || l.as_str().as_bytes() != dec64(x) || l.as_str().parse::<Language>() != Ok(l) {
            Err(format!("language integer {x} does not survive from_raw_unchecked/as_str/parse ({:?})", l.as_str()))
        } else {
            Ok(())
        }
    };
    let chk_s = |x: u32| unsafe {
        let s = Script::from_raw_unchecked(x);
        let back: u32 = s.into();
        if back != x || s.as_str().as_bytes() != dec32(x) || s.as_str().parse::<Script>() != Ok(s) {
            Err(format!("script integer {x} does not survive from_raw_unchecked/as_str/parse ({:?})", s.as_str()))
        } else {
            Ok(())
        }
    };
    let chk_r = |x: u32| unsafe {
        let s = Region::from_raw_unchecked(x);
        let back: u32 = s.into();
        if back != x || s.as_str().as_bytes() != dec32(x) || s.as_str().parse::<Region>() != Ok(s) {
            Err(format!("region integer {x} does not survive from_raw_unchecked/as_str/parse ({:?})", s.as_str()))
        } else {
            Ok(())
        }
    };
    match r.key {
        K::L(a) => chk_l(a)?,
        K::LR(a, b) => {
            chk_l(a)?;
            chk_r(b)?
        }
        K::LS(a, b) => {
            chk_l(a)?;
            chk_s(b)?
        }
        K::SR(a, b) => {
            chk_s(a)?;
            chk_r(b)?
        }
        K::S(a) => chk_s(a)?,
        K::R(a) => chk_r(a)?,
    }
    if let Some(x) = r.val.0 {
        chk_l(x)?;
    }
    if let Some(x) = r.val.1 {
        chk_s(x)?;
    }
    if let Some(x) = r.val.2 {
        chk_r(x)?;
    }
    Ok(())
}

fn find_like_the_library(r: &Row) -> Option<usize> {
    match r.key {
        K::L(l) => tb::LANG_ONLY.binary_search_by_key(&(&l), |(k, _)| k).ok(),
        K::LR(l, x) => tb::LANG_REGION.binary_search_by_key(&(&l, &x), |(a, b, _)| (a, b)).ok(),
        K::LS(l, x) => tb::LANG_SCRIPT.binary_search_by_key(&(&l, &x), |(a, b, _)| (a, b)).ok(),
        K::SR(s, x) => tb::SCRIPT_REGION.binary_search_by_key(&(&s, &x), |(a, b, _)| (a, b)).ok(),
        K::S(s) => tb::SCRIPT_ONLY.binary_search_by_key(&(&s), |(k, _)| k).ok(),
        K::R(s) => tb::REGION_ONLY.binary_search_by_key(&(&s), |(k, _)| k).ok(),
    }
}

fn key_num(k: K) -> (u64, u32) {
    match k {
        K::L(a) => (a, 0),
        K::LR(a, b) | K::LS(a, b) => (a, b),
        K::SR(a, b) => (a as u64, b),
        K::S(a) | K::R(a) => (a as u64, 0),
    }
}

pub fn check_tables(cfg: &Cfg, st: &mut Stats) {
    let lk = match Likely::load(&cfg.repo) {
        Ok(l) => l,
        Err(e) => {
            st.oracle_error(format!("cannot read likelySubtags.json: {e}"));
            return;
        }
    };
    // expected: table -> key text -> value text
    let mut want: BTreeMap<&'static str, BTreeMap<String, String>> = BTreeMap::new();
    for (k, v) in &lk.entries {
        let sh = json_shape(k);
        if sh == "?" {
            st.oracle_error(format!("CLDR key of unexpected shape: {k}"));
            return;
        }
        want.entry(sh).or_default().insert(k.clone(), expected_value(v));
    }
    let rows = rows();
    let mut have: BTreeMap<&'static str, BTreeMap<String, String>> = BTreeMap::new();
    let mut prev: Option<(&'static str, (u64, u32))> = None;
    for r in &rows {
        st.eval();
        st.class(&format!("rows:{}", r.table));
        st.count(Count::Enum, hash_str(&format!("{}#{}", r.table, r.idx)), || row_case(r));
        // order
        let kn = key_num(r.key);
        if let Some((t, p)) = prev {
            if t == r.table && p >= kn {
                st.fail(format!("{}:not-strictly-increasing", r.table), row_case(r), r.idx, format!("{}[{}] key {:?} follows {:?}", r.table, r.idx, kn, p));
            }
        }
        prev = Some((r.table, kn));
        match find_like_the_library(r) {
            Some(i) if i == r.idx => {}
            other => st.fail(format!("{}:binary-search-misses-entry", r.table), row_case(r), r.idx, format!("{}[{}]: the library's binary search finds {:?}", r.table, r.idx, other)),
        }
        // decoding
        let kt = match key_text(r.key, r.table) {
            Ok(k) => k,
            Err(e) => {
                st.fail(format!("{}:ill-formed-key-integer", r.table), row_case(r), r.idx, format!("{}[{}]: {e}", r.table, r.idx));
                continue;
            }
        };
        let vt = match val_text(r.val) {
            Ok(v) => v,
            Err(e) => {
                st.fail(format!("{}:ill-formed-value-integer", r.table), row_case(r), r.idx, format!("{}[{}] ({kt}): {e}", r.table, r.idx));
                continue;
            }
        };
        if let Err(e) = raw_roundtrip(r) {
            st.fail(format!("{}:raw-roundtrip", r.table), row_case(r), r.idx, format!("{}[{}] ({kt}): {e}", r.table, r.idx));
        }
        match want.get(r.table).and_then(|m| m.get(&kt)) {
            None => st.fail(format!("{}:entry-without-cldr-key", r.table), row_case(r), r.idx, format!("{}[{}] has key {kt}, which is not a CLDR key of that shape", r.table, r.idx)),
            Some(w) if *w != vt => st.fail(format!("{}:value-differs-from-cldr", r.table), row_case(r), r.idx, format!("{}[{}]: {kt} -> {vt}, CLDR says {w}", r.table, r.idx)),
            _ => {}
        }
        if have.entry(r.table).or_default().insert(kt.clone(), vt).is_some() {
            st.fail(format!("{}:duplicate-key", r.table), row_case(r), r.idx, format!("{}[{}]: key {kt} occurs twice", r.table, r.idx));
        }
    }
    for (t, m) in &want {
        for (k, v) in m {
            st.eval();
            if !have.get(t).map_or(false, |h| h.contains_key(k)) {
                st.fail(format!("{t}:cldr-key-missing"), json!({"kind": "cldr-key", "table": t, "key": k, "value": v}), 0, format!("CLDR entry {k} -> {v} has no row in {t}"));
            }
        }
    }
    st.subspace("every row of the six compiled likely-subtags tables, and every CLDR key against them", rows.len() as u64, true);
    st.eval();
    if tb::CLDR_VERSION != lk.version {
        st.fail("cldr-version", json!({"kind": "version", "compiled": tb::CLDR_VERSION, "data": lk.version}), 0, format!("CLDR_VERSION = {:?}, data says {:?}", tb::CLDR_VERSION, lk.version));
    }
    st.extra.insert("table_rows".into(), json!(rows.len()));
    st.extra.insert("cldr_keys".into(), json!(lk.entries.len()));
}

pub fn check_layout(cfg: &Cfg, st: &mut Stats) {
    let lay = match Layout::load(&cfg.repo) {
        Ok(l) => l,
        Err(e) => {
            st.oracle_error(format!("cannot read the layout files: {e}"));
            return;
        }
    };
    let want = |d: Dir| -> BTreeSet<String> { lay.script_dir.iter().filter(|(_, v)| **v == d).map(|(k, _)| k.clone()).collect() };
    let tables: [(&str, &[u32], BTreeSet<String>); 3] = [("SCRIPTS_CHARACTER_DIRECTION_LTR", &lt::SCRIPTS_CHARACTER_DIRECTION_LTR, want(Dir::Ltr)), ("SCRIPTS_CHARACTER_DIRECTION_RTL", &lt::SCRIPTS_CHARACTER_DIRECTION_RTL, want(Dir::Rtl)), ("SCRIPTS_CHARACTER_DIRECTION_TTB", &lt::SCRIPTS_CHARACTER_DIRECTION_TTB, want(Dir::Ttb))];
    let mut n = 0u64;
    for (name, tab, want) in tables.iter() {
        let mut have = BTreeSet::new();
        for (i, x) in tab.iter().enumerate() {
            st.eval();
            n += 1;
            let b = dec32(*x);
            let case = json!({"kind": "layout-row", "table": name, "index": i, "text": txt(&b)});
            st.count(Count::Enum, hash_str(&format!("{name}#{i}")), || case.clone());
            if !wf_script(&b) {
                st.fail(format!("{name}:ill-formed-integer"), case.clone(), i, format!("{name}[{i}] = {x} decodes to {:?}", txt(&b)));
                continue;
            }
            if !want.contains(&txt(&b)) {
                st.fail(format!("{name}:script-not-derivable-from-cldr"), case.clone(), i, format!("{name}[{i}] = {} is not a script CLDR lists with that direction", txt(&b)));
            }
            if !have.insert(txt(&b)) {
                st.fail(format!("{name}:duplicate"), case, i, format!("{name}[{i}] = {} twice", txt(&b)));
            }
        }
        for w in want.iter() {
            st.eval();
            if !have.contains(w) {
                st.fail(format!("{name}:script-missing"), json!({"kind": "layout-want", "table": name, "text": w}), 0, format!("CLDR lists script {w} for {name}, the table lacks it"));
            }
        }
    }
    let mut have = BTreeSet::new();
    let name = "LANGS_CHARACTER_DIRECTION_RTL";
    for (i, x) in lt::LANGS_CHARACTER_DIRECTION_RTL.iter().enumerate() {
        st.eval();
        n += 1;
        let b = dec64(*x);
        let case = json!({"kind": "layout-row", "table": name, "index": i, "text": txt(&b)});
        st.count(Count::Enum, hash_str(&format!("{name}#{i}")), || case.clone());
        if !wf_lang(&b) || b == b"und" {
            st.fail(format!("{name}:ill-formed-integer"), case.clone(), i, format!("{name}[{i}] = {x} decodes to {:?}", txt(&b)));
            continue;
        }
        if !lay.rtl_langs.contains(&txt(&b)) {
            st.fail(format!("{name}:language-not-derivable-from-cldr"), case.clone(), i, format!("{name}[{i}] = {} never occurs right-to-left in CLDR", txt(&b)));
        }
        if !have.insert(txt(&b)) {
            st.fail(format!("{name}:duplicate"), case, i, format!("{name}[{i}] = {} twice", txt(&b)));
        }
    }
    for w in lay.rtl_langs.iter() {
        st.eval();
        if !have.contains(w) {
            st.fail(format!("{name}:language-missing"), json!({"kind": "layout-want", "table": name, "text": w}), 0, format!("CLDR lists {w} right-to-left, the table lacks it"));
        }
    }
    st.subspace("every entry of the four character-direction constants, and every derived script / language against them", n, true);
}

/// hash index over the COMPILED tables (built once, row by row, no ordering assumption) with
/// the cascade of C06 on top: the model of the lookup
struct Index {
    l: std::collections::HashMap<u64, V>,
    lr: std::collections::HashMap<(u64, u32), V>,
    ls: std::collections::HashMap<(u64, u32), V>,
    sr: std::collections::HashMap<(u32, u32), V>,
    s: std::collections::HashMap<u32, V>,
    r: std::collections::HashMap<u32, V>,
}
fn index() -> &'static Index {
    static IX: std::sync::OnceLock<Index> = std::sync::OnceLock::new();
    IX.get_or_init(|| Index {
        // first occurrence wins, as in a scan from the top
        l: tb::LANG_ONLY.iter().rev().filter(|e| dec64(e.0) != b"und").map(|e| (e.0, e.1)).collect(),
        lr: tb::LANG_REGION.iter().rev().map(|e| ((e.0, e.1), e.2)).collect(),
        ls: tb::LANG_SCRIPT.iter().rev().map(|e| ((e.0, e.1), e.2)).collect(),
        sr: tb::SCRIPT_REGION.iter().rev().map(|e| ((e.0, e.1), e.2)).collect(),
        s: tb::SCRIPT_ONLY.iter().rev().map(|e| (e.0, e.1)).collect(),
        r: tb::REGION_ONLY.iter().rev().map(|e| (e.0, e.1)).collect(),
    })
}
fn scan_max(l: Option<u64>, s: Option<u32>, r: Option<u32>) -> Option<V> {
    if l.is_some() && s.is_some() && r.is_some() {
        return None;
    }
    let ix = index();
    let fill = |v: &V| -> V { (l.or(v.0), s.or(v.1), r.or(v.2)) };
    if let Some(l) = l {
        if let Some(r) = r {
            if let Some(e) = ix.lr.get(&(l, r)) {
                return Some(fill(e));
            }
        }
        if let Some(s) = s {
            if let Some(e) = ix.ls.get(&(l, s)) {
                return Some(fill(e));
            }
        }
        return ix.l.get(&l).map(fill);
    }
    if let Some(s) = s {
        if let Some(r) = r {
            if let Some(e) = ix.sr.get(&(s, r)) {
                return Some(fill(e));
            }
        }
        return ix.s.get(&s).map(fill);
    }
    if let Some(r) = r {
        return ix.r.get(&r).map(fill);
    }
    None
}

pub fn check_lookup(h: &Handles, d: &Dressed, st: &mut Stats) {
    check_lookup_triple(h, h.dressed_triple(d), st, Count::Hash)
}

pub fn check_lookup_triple(h: &Handles, t: Triple, st: &mut Stats, mode: Count) {
    st.eval();
    let lib = h.lib(t);
    let l: Option<u64> = lib.0.into();
    let s: Option<u32> = lib.1.map(Into::into);
    let r: Option<u32> = lib.2.map(Into::into);
    let want = scan_max(l, s, r);
    let got = match lib_max(lib) {
        Ok(g) => g.map(|(a, b, c)| (Into::<Option<u64>>::into(a), b.map(Into::<u32>::into), c.map(Into::<u32>::into))),
        Err(p) => {
            st.fail(format!("lookup:{}", panic_sig(&p)), h.case(t), 3, format!("panicked: {p:?}"));
            return;
        }
    };
    // a fallback answer the property allows (C06) is not a table look-up; compare only when the
    // scan finds a row or the library answers None
    if want.is_some() || got.is_none() {
        // only the components that were absent in the query are compared: they identify the
        // row that was found; whether given subtags are kept is C06/C07's business
        let proj = |v: &Option<V>| v.map(|v| (if l.is_none() { v.0 } else { None }, if s.is_none() { v.1 } else { None }, if r.is_none() { v.2 } else { None }));
        if proj(&want) != proj(&got) {
            st.fail("lookup:binary-search-differs-from-linear-scan", h.case(t), 3, format!("maximize({}) = {:?}, a linear scan of the compiled tables gives {:?}", h.lk.show(t), got, want));
        }
    } else {
        st.class("lookup:library-answers-without-row (left to C06)");
    }
    if want.is_some() {
        st.class("lookup:hits-a-row");
        st.count(mode, hash_triple(t), || h.case(t));
    }
}

pub fn run(cfg: &Cfg) -> Stats {
    let mut st = Stats::new();
    check_tables(cfg, &mut st);
    check_layout(cfg, &mut st);
    if let Ok(h) = Handles::load(cfg) {
        // every one- and two-component query (and, thorough, the whole core universe): the
        // library's binary search must find exactly the rows a hash index of the same tables finds
        st = st.merge(sweep(cfg, &h, "c18", &|t, st, mode| check_lookup_triple(&h, t, st, mode)));
        let n = cfg.pick(2_000_000, 8_000_000);
        let s = run_strategy(&s_dressed(&h), cfg.seed, "c18-lookups", n, |d, st| check_lookup(&h, d, st));
        st = st.merge(s);
        st.subspace("generated look-ups: linear scan of the compiled tables vs likelysubtags::maximize (proptest)", n, false);
    }
    st
}

pub fn replay(case: &Value, st: &mut Stats) {
    let cfg = replay_cfg("C18");
    match case["kind"].as_str() {
        Some("triple") => {
            if let Ok(h) = Handles::load(&cfg) {
                if let Some(t) = h.from_case(case) {
                    // rebuild a Dressed that denotes exactly t
                    let d = Dressed { kind: 9, pick: 0, l: t.l, s: t.s, r: t.r, mask: 0, variants: vec![], ext: None };
                    check_lookup_triple(&h, t, st, Count::No);
                }
            }
        }
        Some("layout-row") | Some("layout-want") => check_layout(&cfg, st),
        _ => check_tables(&cfg, st),
    }
    // keep only failures that concern the replayed row / key
    let want_table = case["table"].as_str().unwrap_or("").to_string();
    if !want_table.is_empty() {
        st.failures.retain(|sig, f| sig.starts_with(&want_table) && (f.case["index"] == case["index"] || f.case["key"] == case["key"] || f.case["text"] == case["text"]));
    }
    let _ = prop::bool::ANY;
}
