//! C16 — compile-time macros equal run-time parsing. The domain is *programs*: the harness
//! generates two crates that use the macros of the facade crates (features = ["macros"]),
//! builds them with cargo (offline) and judges the outcome of every single invocation.

use crate::gen;
use crate::model::{self, Zone};
use crate::run::*;
use proptest::prelude::*;
use serde_json::{json, Value};
use std::collections::{BTreeMap, BTreeSet};
use std::fmt::Write as _;
use std::path::{Path, PathBuf};
use std::process::Command;

pub const RULE: &str = "Domain: generated programs. ok-crate: N = 1200 | 5000 invocations of langid! lang! script! region! variant! locale! (single literal) and langids! langid_slice! locales! (2-4 literals, every fifth list 8-40 literals, one list of 130-300 literals per list macro, with and without trailing comma; single literals are followed by their one-character neighbours) on literals the reference model classifies as well-formed, spelled as plain, raw (r\"..\", r#\"..\"#) or escaped (\\x.., \\u{..}) string literals (proptest grammar strategies with random case / separator masks, und, every extension shape and order incl. tfields followed by -u-/-x-, duplicated and unsorted variants, boundary lengths), invoked by path, by bare imported name, inside a closure passed to a generic function, or - for the forms the crate documents as const-usable - as the initialiser of a const / static item, through a macro_rules wrapper that holds two invocations, or inside a module that declares its own Vec / String / Result / ... types; the ok-crate is built and run with features macros and again with macros + likelysubtags + serde; each invocation is compared at run time with parsing the same literal (==, to_string, hash, per element for lists) inside catch_unwind. bad-crate: M = 800 | 3000 invocations, one per function, on literals the reference puts in must-reject (near-miss mutations, wrong lengths / character classes, foreign and repeated singletons, non-ASCII look-alikes, the empty string, well-formed literals padded with ASCII / Unicode whitespace or control characters or with one letter replaced by a character that case-folds to ASCII; either-zone literals are never used), built with cargo check --message-format=json; list macros get exactly one ill-formed element. Oracle: the ok-crate compiles (a compile error is mapped through the expansion chain to its invocation, reported, the invocation removed and the crate rebuilt) and every comparison is equal with no run-time panic; in the bad-crate the set of invocations carrying an error equals the set of all invocations. Non-trivial (ok) = literal with an extension, non-canonical case or separator, und, >= 2 variants or a list macro; every bad invocation counts. Distinct = hash set over (macro, literals).";

#[derive(Clone, Debug, PartialEq, Eq, Hash)]
pub struct MCase {
    pub mac: String,
    pub lits: Vec<String>,
    pub trailing_comma: bool,
    pub expect_ok: bool,
}

fn mcase_json(c: &MCase) -> Value {
    json!({"kind": "macro", "macro": c.mac, "literals": c.lits, "trailing_comma": c.trailing_comma, "expect_ok": c.expect_ok})
}
fn mcase_from(v: &Value) -> Option<MCase> {
    Some(MCase {
        mac: v["macro"].as_str()?.to_string(),
        lits: v["literals"].as_array()?.iter().filter_map(|x| x.as_str().map(|s| s.to_string())).collect(),
        trailing_comma: v["trailing_comma"].as_bool().unwrap_or(false),
        expect_ok: v["expect_ok"].as_bool()?,
    })
}

fn ty_of(mac: &str) -> &'static str {
    match mac {
        "langid" | "langids" | "langid_slice" => "unic_langid::LanguageIdentifier",
        "lang" => "unic_langid::subtags::Language",
        "script" => "unic_langid::subtags::Script",
        "region" => "unic_langid::subtags::Region",
        "variant" => "unic_langid::subtags::Variant",
        _ => "unic_locale::Locale",
    }
}
fn path_of(mac: &str) -> String {
    match mac {
        "locale" | "locales" => format!("unic_locale::{mac}"),
        _ => format!("unic_langid::{mac}"),
    }
}
fn is_list(mac: &str) -> bool {
    matches!(mac, "langids" | "langid_slice" | "locales")
}

/// the reference's verdict on one literal for one macro: Some(true) well-formed,
/// Some(false) ill-formed (must be rejected), None = not prescribed (never generated)
pub fn verdict(mac: &str, lit: &str) -> Option<bool> {
    let b = lit.as_bytes();
    match mac {
        "lang" => Some(model::is_language(b)),
        "script" => Some(model::is_script(b)),
        "region" => Some(model::is_region(b)),
        "variant" => Some(model::is_variant(b)),
        "langid" | "langids" | "langid_slice" => Some(model::ref_langid(b).is_ok()),
        _ => match model::ref_locale(b) {
            Zone::MustAccept(..) => Some(true),
            Zone::MustReject(_) => Some(false),
            _ => None,
        },
    }
}

/// source spelling of a string literal: plain, raw, raw with hashes, or with the first / last
/// character written as an escape - all denote the same string value
fn spell(l: &str) -> String {
    let plain = format!("{l:?}");
    let raw_ok = !l.is_empty() && l.chars().all(|c| c != '"' && c != '\\' && c != '\r' && !c.is_control());
    match hash_str(l) % 7 {
        1 if raw_ok => format!("r\"{l}\""),
        2 if raw_ok && !l.contains("\"#") => format!("r#\"{l}\"#"),
        3 if l.is_ascii() && !l.is_empty() => {
            let b = l.as_bytes();
            format!("\"\\x{:02x}{}\"", b[0], &format!("{:?}", &l[1..])[1..format!("{:?}", &l[1..]).len() - 1])
        }
        4 if !l.is_empty() => {
            let last = l.chars().last().unwrap();
            let head = &l[..l.len() - last.len_utf8()];
            let h = format!("{head:?}");
            format!("\"{}\\u{{{:x}}}\"", &h[1..h.len() - 1], last as u32)
        }
        _ => plain,
    }
}

/// how the invocation is written: 0, 1 = by path (`unic_langid::langid!(..)`), 2 = imported with `use` and
/// invoked by its bare name, 3 = by path inside a closure that is passed to a generic function,
/// 4 = as the initialiser of a `const` item, 5 = of a `static` item (the forms the crate documents:
/// subtag macros, `langid!` / `langid_slice!` without variants; `und` is left out because the
/// pinned expansion calls the non-const `Language::default()` for it).
/// A function of the case itself (not of its index), so that a replay crate uses the same form.
fn ctx_of(c: &MCase) -> u64 {
    let k = hash_str(&format!("{}|{:?}", c.mac, c.lits)) % 8;
    if k == 7 {
        // 7 = inside a module of its own that declares types named like std / crate items which the
        // pinned expansions never mention by bare name (Vec, String, Result, Default, Clone, Into,
        // From, ToString, Iterator, Locale, LanguageIdentifier, Language); Some / None / Box, which
        // the pinned proc macros do emit bare, are left alone. Well-formed literals only.
        return if c.mac == "langid_slice" || !c.expect_ok { 1 } else { 7 };
    }
    if k == 6 {
        // 6 = through a macro_rules wrapper of the generated crate that expands to TWO invocations
        // at one outer call site (a decoy first, then the literal under test): single-literal macros on
        // well-formed literals only (an error inside a wrapper is reported at the wrapper's body)
        return if is_list(&c.mac) || !c.expect_ok { 0 } else { 6 };
    }
    if k >= 4 && !const_ok(c) {
        return k - 4;
    }
    k
}

fn const_ok(c: &MCase) -> bool {
    if !c.expect_ok {
        return false;
    }
    let plain = |l: &String| matches!(model::ref_langid(l.as_bytes()), Ok(m) if m.language.is_some() && m.variants.is_empty());
    match c.mac.as_str() {
        "lang" => c.lits.iter().all(|l| !l.eq_ignore_ascii_case("und")),
        "script" | "region" | "variant" => true,
        "langid" | "langid_slice" => c.lits.iter().all(plain),
        _ => false,
    }
}

fn invocation(c: &MCase) -> String {
    let args: Vec<String> = c.lits.iter().map(|l| spell(l)).collect();
    let mut a = args.join(", ");
    if c.trailing_comma {
        a.push(',');
    }
    let name = match ctx_of(c) {
        2 => c.mac.clone(),
        6 => format!("w_{}", c.mac),
        _ => path_of(&c.mac),
    };
    if is_list(&c.mac) {
        format!("{name}![{a}]")
    } else {
        format!("{name}!({a})")
    }
}

/// (statement before the binding, wrapper prefix, wrapper suffix) of the invocation
fn context(c: &MCase) -> (String, String, String) {
    let ty = if c.mac == "langid_slice" { format!("&[{}]", ty_of(&c.mac)) } else { ty_of(&c.mac).to_string() };
    match ctx_of(c) {
        2 => ("    use unic_langid::{lang, langid, langid_slice, langids, region, script, variant}; use unic_locale::{locale, locales};\n".into(), String::new(), String::new()),
        // (langid_slice! borrows a temporary array: it cannot be returned from a closure)
        3 if c.mac != "langid_slice" => (String::new(), "pass((|| (".into(), ",)))().0".into()),
        4 => (String::new(), format!("{{ const M: {ty} = ("), "); M }".into()),
        5 => (String::new(), format!("{{ static M: {ty} = ("), "); M.clone() }".into()),
        7 => {
            let ret = if is_list(&c.mac) { format!("::std::vec::Vec<{ty}>") } else { ty.clone() };
            (
                String::new(),
                format!("{{ mod scope {{ #![allow(dead_code, non_camel_case_types)] pub struct Vec; pub struct String; pub struct Result; pub struct Default; pub struct Clone; pub struct Into; pub struct From; pub struct ToString; pub struct Iterator; pub struct Locale; pub struct LanguageIdentifier; pub struct Language; pub fn get() -> {ret} {{ ("),
                ") } } scope::get() }".into(),
            )
        }
        _ => (String::new(), String::new(), String::new()),
    }
}

const PRELUDE: &str = r#"#![allow(unused, clippy::all)]
macro_rules! w_lang { ($l:expr) => {{ let _d = unic_langid::lang!("zz"); unic_langid::lang!($l) }} }
macro_rules! w_script { ($l:expr) => {{ let _d = unic_langid::script!("Zzzz"); unic_langid::script!($l) }} }
macro_rules! w_region { ($l:expr) => {{ let _d = unic_langid::region!("ZZ"); unic_langid::region!($l) }} }
macro_rules! w_variant { ($l:expr) => {{ let _d = unic_langid::variant!("zzzzz"); unic_langid::variant!($l) }} }
macro_rules! w_langid { ($l:expr) => {{ let _d = unic_langid::langid!("zz-Zzzz-ZZ-zzzzz-yyyyy"); unic_langid::langid!($l) }} }
macro_rules! w_locale { ($l:expr) => {{ let _d = unic_locale::locale!("zz-Zzzz-ZZ-zzzzz-t-zz-z0-zzz-u-zzz-zz-zzz-x-zz"); unic_locale::locale!($l) }} }
use std::collections::hash_map::DefaultHasher;
use std::fmt::{Debug, Display};
use std::hash::{Hash, Hasher};
pub fn h<T: Hash>(t: &T) -> u64 { let mut s = DefaultHasher::new(); t.hash(&mut s); s.finish() }
pub fn cmp<T: PartialEq + Hash + Display + Debug>(m: &T, p: &T) -> Result<(), String> {
    if m != p { return Err(format!("macro value {:?} != parsed value {:?}", m, p)); }
    if m.to_string() != p.to_string() { return Err(format!("macro value prints {:?}, parsed value prints {:?}", m.to_string(), p.to_string())); }
    if h(m) != h(p) { return Err(format!("hash differs for {:?}", m.to_string())); }
    Ok(())
}
pub fn cmp_list<T: PartialEq + Hash + Display + Debug>(m: &[T], p: &[T]) -> Result<(), String> {
    if m.len() != p.len() { return Err(format!("list macro gives {} elements for {} literals", m.len(), p.len())); }
    for (a, b) in m.iter().zip(p.iter()) { cmp(a, b)?; }
    Ok(())
}
pub fn pass<T>(f: impl FnOnce() -> T) -> impl FnOnce() -> T { f }
"#;

struct Emitted {
    /// module file name -> text
    files: BTreeMap<String, String>,
    /// (file, first line, last line) per case index
    lines: Vec<(String, usize, usize)>,
}

fn emit(cases: &[(usize, &MCase)], per_file: usize) -> Emitted {
    let mut files = BTreeMap::new();
    let mut lines = vec![(String::new(), 0, 0); cases.iter().map(|c| c.0 + 1).max().unwrap_or(0)];
    let mut mods = vec![];
    for (k, chunk) in cases.chunks(per_file).enumerate() {
        let name = format!("m{k}");
        let mut text = String::from("use crate::*;\n");
        let mut line = 2usize;
        for (i, c) in chunk {
            let ty = ty_of(&c.mac);
            let (pre, wa, wb) = context(c);
            let inv = format!("{wa}\n        {}\n        {wb}", invocation(c));
            let start = line;
            let mut body = String::new();
            if c.expect_ok {
                let _ = writeln!(body, "pub fn c{i}() -> Result<(), String> {{");
                body.push_str(&pre);
                if is_list(&c.mac) {
                    if c.mac == "langid_slice" {
                        let _ = writeln!(body, "    let m: &[{ty}] =\n        {inv};");
                    } else {
                        let _ = writeln!(body, "    let m: Vec<{ty}> =\n        {inv};");
                    }
                    let _ = writeln!(body, "    let mut p: Vec<{ty}> = vec![];");
                    for l in &c.lits {
                        let _ = writeln!(body, "    p.push({l:?}.parse::<{ty}>().map_err(|e| format!(\"run-time parsing fails: {{:?}}\", e))?);");
                    }
                    let _ = writeln!(body, "    cmp_list(&m[..], &p[..])");
                } else {
                    let _ = writeln!(body, "    let m: {ty} =\n        {inv};");
                    let _ = writeln!(body, "    let p: {ty} = {:?}.parse::<{ty}>().map_err(|e| format!(\"run-time parsing fails: {{:?}}\", e))?;", c.lits[0]);
                    let _ = writeln!(body, "    cmp(&m, &p)");
                }
                let _ = writeln!(body, "}}");
            } else {
                let _ = writeln!(body, "pub fn c{i}() {{");
                body.push_str(&pre);
                let _ = writeln!(body, "    let _m =\n        {inv};");
                let _ = writeln!(body, "}}");
            }
            let n = body.matches('\n').count();
            text.push_str(&body);
            line += n;
            lines[*i] = (format!("src/{name}.rs"), start, line - 1);
        }
        files.insert(format!("{name}.rs"), text);
        mods.push(name);
    }
    let mut main = String::from(PRELUDE);
    for m in &mods {
        let _ = writeln!(main, "mod {m};");
    }
    let any_ok = cases.iter().any(|c| c.1.expect_ok);
    if any_ok {
        main.push_str("fn main() {\n    let table: Vec<(usize, fn() -> Result<(), String>)> = vec![\n");
        for (k, chunk) in cases.chunks(per_file).enumerate() {
            for (i, c) in chunk {
                if c.expect_ok {
                    let _ = writeln!(main, "        ({i}, m{k}::c{i}),");
                }
            }
        }
        main.push_str("    ];\n    std::panic::set_hook(Box::new(|_| {}));\n    for (i, f) in table {\n        match std::panic::catch_unwind(f) {\n            Ok(Ok(())) => println!(\"R {} OK\", i),\n            Ok(Err(e)) => println!(\"R {} DIFF {}\", i, e.replace('\\n', \" \")),\n            Err(p) => {\n                let msg = p.downcast_ref::<String>().cloned().or_else(|| p.downcast_ref::<&str>().map(|s| s.to_string())).unwrap_or_default();\n                println!(\"R {} PANIC {}\", i, msg.replace('\\n', \" \"));\n            }\n        }\n    }\n}\n");
    } else {
        main.push_str("fn main() {}\n");
    }
    files.insert("main.rs".into(), main);
    Emitted { files, lines }
}

fn write_crate(dir: &Path, name: &str, repo: &Path, em: &Emitted) -> Result<(), String> {
    write_crate_with(dir, name, repo, em, "\"macros\"")
}

/// `feats`: the cargo features of both facade crates, as the inside of a TOML array
fn write_crate_with(dir: &Path, name: &str, repo: &Path, em: &Emitted, feats: &str) -> Result<(), String> {
    let src = dir.join("src");
    let _ = std::fs::remove_dir_all(&src);
    std::fs::create_dir_all(&src).map_err(|e| e.to_string())?;
    std::fs::create_dir_all(dir.join(".cargo")).map_err(|e| e.to_string())?;
    let toml = format!(
        "[package]\nname = \"{name}\"\nversion = \"0.0.0\"\nedition = \"2021\"\npublish = false\n\n[workspace]\n\n[dependencies]\nunic-langid = {{ path = \"{r}/unic-langid\", features = [{feats}] }}\nunic-locale = {{ path = \"{r}/unic-locale\", features = [{feats_locale}] }}\n\n[profile.dev]\ndebug = 0\nincremental = false\n",
        r = repo.display(),
        // unic-locale has no serde feature of its own
        feats_locale = feats.split(',').map(|f| f.trim()).filter(|f| *f != "\"serde\"").collect::<Vec<_>>().join(", ")
    );
    std::fs::write(dir.join("Cargo.toml"), toml).map_err(|e| e.to_string())?;
    std::fs::write(dir.join(".cargo/config.toml"), "[net]\noffline = true\n").map_err(|e| e.to_string())?;
    if !dir.join("Cargo.lock").exists() {
        // the repository's lock file, or (when the tree has none) the harness's own, which
        // covers the macro crates' dependencies as well
        let harness_lock = dir.ancestors().find(|p| p.join("harness/Cargo.lock").exists()).map(|p| p.join("harness/Cargo.lock"));
        let src = if repo.join("Cargo.lock").exists() { Some(repo.join("Cargo.lock")) } else { harness_lock };
        if let Some(src) = src {
            std::fs::copy(&src, dir.join("Cargo.lock")).map_err(|e| format!("copy {}: {e}", src.display()))?;
        }
    }
    for (f, t) in &em.files {
        std::fs::write(src.join(f), t).map_err(|e| e.to_string())?;
    }
    Ok(())
}

struct CargoOut {
    /// (file, line, message) of every error, located in the generated crate
    errors: Vec<(String, usize, String)>,
    /// errors that could not be located in the generated crate
    stray: Vec<String>,
    success: bool,
    stderr_tail: String,
}

fn locate(span: &Value) -> Option<(String, usize)> {
    let mut cur = span;
    for _ in 0..32 {
        let f = cur["file_name"].as_str().unwrap_or("");
        if f.starts_with("src/") {
            return Some((f.to_string(), cur["line_start"].as_u64().unwrap_or(0) as usize));
        }
        let e = &cur["expansion"];
        if e.is_null() {
            return None;
        }
        cur = &e["span"];
    }
    None
}

fn cargo(dir: &Path, target: &Path, sub: &str) -> Result<CargoOut, String> {
    let out = Command::new("cargo")
        .args([sub, "--offline", "--message-format=json"])
        .current_dir(dir)
        .env("CARGO_TARGET_DIR", target)
        .env("CARGO_NET_OFFLINE", "true")
        .env_remove("RUSTFLAGS")
        .env_remove("CARGO_ENCODED_RUSTFLAGS")
        .output()
        .map_err(|e| format!("cannot run cargo: {e}"))?;
    let mut errors = vec![];
    let mut stray = vec![];
    for l in String::from_utf8_lossy(&out.stdout).lines() {
        let Ok(v) = serde_json::from_str::<Value>(l) else { continue };
        if v["reason"] != json!("compiler-message") {
            continue;
        }
        let m = &v["message"];
        if m["level"] != json!("error") {
            continue;
        }
        let text = m["message"].as_str().unwrap_or("").to_string();
        if text.starts_with("aborting due to") || text.starts_with("could not compile") {
            continue;
        }
        let spans = m["spans"].as_array().cloned().unwrap_or_default();
        let mut found = None;
        for s in spans.iter().filter(|s| s["is_primary"] == json!(true)).chain(spans.iter()) {
            if let Some(x) = locate(s) {
                found = Some(x);
                break;
            }
        }
        match found {
            Some((f, line)) => errors.push((f, line, text)),
            None => stray.push(text),
        }
    }
    let stderr = String::from_utf8_lossy(&out.stderr);
    let tail: String = stderr.lines().rev().take(12).collect::<Vec<_>>().into_iter().rev().collect::<Vec<_>>().join("\n");
    Ok(CargoOut { errors, stray, success: out.status.success(), stderr_tail: tail })
}

fn case_at(lines: &[(String, usize, usize)], file: &str, line: usize) -> Option<usize> {
    lines.iter().position(|(f, a, b)| f == file && *a <= line && line <= *b)
}

#[derive(Debug, Clone, PartialEq)]
pub enum Outcome {
    Equal,
    Differs(String),
    Panics(String),
    CompileError(String),
    /// bad-crate: error reported at the invocation
    Rejected(String),
    /// bad-crate: no error at the invocation
    Compiles,
}

/// Build and run the cases; returns the outcome per case index, or an infrastructure error.
pub fn evaluate(cfg: &Cfg, tag: &str, cases: &[MCase]) -> Result<Vec<Option<Outcome>>, String> {
    let base = cfg.verif.join("target").join("macrogen");
    let target = cfg.verif.join("target").join("macrogen-target");
    let mut out: Vec<Option<Outcome>> = vec![None; cases.len()];
    // ---- ok-crate
    let mut live: Vec<(usize, &MCase)> = cases.iter().enumerate().filter(|(_, c)| c.expect_ok).collect();
    if !live.is_empty() {
        let dir = base.join(format!("{tag}-ok"));
        for round in 0..8 {
            let em = emit(&live, 250);
            write_crate(&dir, "c16ok", &cfg.repo, &em)?;
            let co = cargo(&dir, &target, "build")?;
            if co.success {
                break;
            }
            if co.errors.is_empty() {
                return Err(format!("the ok-crate does not build and no error is located in it: {} | {}", co.stray.join(" | "), co.stderr_tail));
            }
            let mut hit = BTreeSet::new();
            for (f, line, msg) in &co.errors {
                match case_at(&em.lines, f, *line) {
                    Some(i) => {
                        hit.insert(i);
                        if out[i].is_none() {
                            out[i] = Some(Outcome::CompileError(msg.clone()));
                        }
                    }
                    None => return Err(format!("compile error outside every generated invocation: {f}:{line}: {msg}")),
                }
            }
            live.retain(|(i, _)| !hit.contains(i));
            if round == 7 {
                return Err("the ok-crate still does not build after 8 rounds of removing failing invocations".into());
            }
            if live.is_empty() {
                break;
            }
        }
        if !live.is_empty() {
            let exe = target.join("debug").join("c16ok");
            let run = Command::new(&exe).output().map_err(|e| format!("cannot run {}: {e}", exe.display()))?;
            for l in String::from_utf8_lossy(&run.stdout).lines() {
                let mut it = l.splitn(4, ' ');
                if it.next() != Some("R") {
                    continue;
                }
                let Some(i) = it.next().and_then(|x| x.parse::<usize>().ok()) else { continue };
                let kind = it.next().unwrap_or("");
                let rest = it.next().unwrap_or("").to_string();
                if i < out.len() {
                    out[i] = Some(match kind {
                        "OK" => Outcome::Equal,
                        "DIFF" => Outcome::Differs(rest),
                        _ => Outcome::Panics(rest),
                    });
                }
            }
            for (i, _) in &live {
                if out[*i].is_none() {
                    return Err(format!("the ok-crate printed no result for invocation {i} (exit {:?})", run.status.code()));
                }
            }
            // the same program once more with likelysubtags switched on next to macros: the proc-macro
            // crates are host dependencies and (resolver 2) get their own feature set, so a
            // feature-gated difference in the parser separates the macro's answer from the run-time one
            let dir2 = base.join(format!("{tag}-okl"));
            let em = emit(&live, 250);
            write_crate_with(&dir2, "c16okl", &cfg.repo, &em, "\"macros\", \"likelysubtags\", \"serde\"")?;
            let co = cargo(&dir2, &target, "build")?;
            if !co.success {
                for (f, line, msg) in &co.errors {
                    if let Some(i) = case_at(&em.lines, f, *line) {
                        if matches!(out[i], Some(Outcome::Equal)) {
                            out[i] = Some(Outcome::CompileError(format!("[features macros + likelysubtags + serde] {msg}")));
                        }
                    }
                }
                if co.errors.is_empty() {
                    return Err(format!("the ok-crate does not build with macros + likelysubtags + serde and no error is located in it: {} | {}", co.stray.join(" | "), co.stderr_tail));
                }
            } else {
                let exe = target.join("debug").join("c16okl");
                let run = Command::new(&exe).output().map_err(|e| format!("cannot run {}: {e}", exe.display()))?;
                for l in String::from_utf8_lossy(&run.stdout).lines() {
                    let mut it = l.splitn(4, ' ');
                    if it.next() != Some("R") {
                        continue;
                    }
                    let Some(i) = it.next().and_then(|x| x.parse::<usize>().ok()) else { continue };
                    let kind = it.next().unwrap_or("");
                    let rest = it.next().unwrap_or("").to_string();
                    if i < out.len() && kind != "OK" && matches!(out[i], Some(Outcome::Equal)) {
                        out[i] = Some(if kind == "DIFF" { Outcome::Differs(format!("[features macros + likelysubtags + serde] {rest}")) } else { Outcome::Panics(format!("[features macros + likelysubtags + serde] {rest}")) });
                    }
                }
            }
        }
    }
    // ---- bad-crate
    let bad: Vec<(usize, &MCase)> = cases.iter().enumerate().filter(|(_, c)| !c.expect_ok).collect();
    if !bad.is_empty() {
        let dir = base.join(format!("{tag}-bad"));
        let em = emit(&bad, 250);
        write_crate(&dir, "c16bad", &cfg.repo, &em)?;
        let co = cargo(&dir, &target, "check")?;
        if !co.stray.is_empty() && co.errors.is_empty() {
            return Err(format!("the bad-crate fails with errors that are not located in it: {}", co.stray.join(" | ")));
        }
        for (f, line, msg) in &co.errors {
            match case_at(&em.lines, f, *line) {
                Some(i) => {
                    if out[i].is_none() {
                        out[i] = Some(Outcome::Rejected(msg.clone()));
                    }
                }
                None => return Err(format!("compile error outside every generated invocation: {f}:{line}: {msg}")),
            }
        }
        for (i, _) in &bad {
            if out[*i].is_none() {
                out[*i] = Some(Outcome::Compiles);
            }
        }
        if co.success && bad.iter().any(|(i, _)| out[*i] != Some(Outcome::Compiles)) {
            return Err("cargo check succeeded although errors were reported".into());
        }
    }
    Ok(out)
}

// ------------------------------------------------------------------------------------------
// generation of literals

fn ascii_case_mask(s: &str, mask: u64) -> String {
    s.chars().enumerate().map(|(i, c)| if (mask >> (i % 64)) & 1 == 1 { c.to_ascii_uppercase() } else { c }).collect()
}

fn s_good_single() -> proptest::strategy::SBoxedStrategy<(String, String)> {
    let cm = prop_oneof![2 => Just(0u64), 2 => any::<u64>(), 1 => Just(u64::MAX)];
    prop_oneof![
        4 => gen::s_langid_bytes().prop_map(|b| ("langid".to_string(), String::from_utf8_lossy(&b).to_string())),
        6 => gen::s_ast().prop_map(|a| ("locale".to_string(), String::from_utf8_lossy(&a.render()).to_string())),
        2 => (gen::s_language(), cm.clone()).prop_map(|(s, m)| ("lang".to_string(), ascii_case_mask(&s, m))),
        1 => (gen::s_script(), cm.clone()).prop_map(|(s, m)| ("script".to_string(), ascii_case_mask(&s, m))),
        1 => (gen::s_region(), cm.clone()).prop_map(|(s, m)| ("region".to_string(), ascii_case_mask(&s, m))),
        2 => (gen::s_variant(), cm).prop_map(|(s, m)| ("variant".to_string(), ascii_case_mask(&s, m))),
    ]
    .sboxed()
}

fn s_bad_subtag() -> proptest::strategy::SBoxedStrategy<String> {
    prop_oneof![
        3 => "[a-zA-Z0-9]{0,10}",
        1 => "[a-z]{1,8}[-_.* ][a-z]{0,3}",
        1 => "[a-z]{1,4}[\u{00e9}\u{0430}\u{ff41}\u{0131}][a-z]{0,3}",
        1 => Just(String::new()),
    ]
    .sboxed()
}

fn s_bad_single() -> proptest::strategy::SBoxedStrategy<(String, String)> {
    let lossy = |b: Vec<u8>| String::from_utf8(b).ok();
    prop_oneof![
        4 => gen::s_near_miss_langid().prop_filter_map("utf8", lossy).prop_map(|s| ("langid".to_string(), s)),
        6 => gen::s_near_miss().prop_filter_map("utf8", lossy).prop_map(|s| ("locale".to_string(), s)),
        1 => s_bad_subtag().prop_map(|s| ("lang".to_string(), s)),
        1 => s_bad_subtag().prop_map(|s| ("script".to_string(), s)),
        1 => s_bad_subtag().prop_map(|s| ("region".to_string(), s)),
        1 => s_bad_subtag().prop_map(|s| ("variant".to_string(), s)),
    ]
    .sboxed()
}

const FIXED_GOOD: &[(&str, &str)] = &[
    ("lang", "und"),
    ("lang", "UND"),
    ("lang", "en"),
    ("lang", "abcdefgh"),
    ("langid", "und"),
    ("langid", "und-Latn"),
    ("langid", "UND_latn_us"),
    ("langid", "en-US-valencia-1abc-valencia"),
    ("langid", "de-1996-1901"),
    ("langid", "abcde-001"),
    ("locale", "und"),
    ("locale", "en-t-h0-hybrid-u-ca-buddhist"),
    ("locale", "en-u-ca-buddhist-t-h0-hybrid-x-foo"),
    ("locale", "EN_T_EN_LATN_US_VALENCIA_H0_HYBRID_K0_FOO_BAR_U_ATTR_CA_BUDDHIST_NU_X_A_T_U"),
    ("locale", "und-x-a"),
    ("locale", "en-u-attr2-attr1-attr2"),
    ("locale", "en-u-nu-true-ca-true"),
    ("locale", "en-t-und-latn"),
    ("locale", "en-valencia-1abc-u-ca-t-en-1abc-valencia"),
    ("script", "lATN"),
    ("region", "us"),
    ("region", "001"),
    ("variant", "1ABC"),
    ("variant", "VALENCIA"),
    // codes and words with a meaning elsewhere (withdrawn ISO 639 codes, macrolanguages, registered
    // variants, real-world keywords): an alias table or a feature-gated rewrite reacts to these only
    ("lang", "iw"), ("lang", "in"), ("lang", "ji"), ("lang", "jw"), ("lang", "mo"), ("lang", "tl"), ("lang", "sh"), ("lang", "IW"),
    ("langid", "iw-IL"), ("langid", "in_ID"), ("langid", "ji-Hebr-UA"), ("langid", "sh-Latn-RS"), ("langid", "tl-PH"), ("langid", "zh-cmn"), ("langid", "no-NO-nynorsk"),
    ("langid", "ca-ES-valencia"), ("langid", "sl-rozaj-biske-1994"), ("langid", "en-US-posix"), ("langid", "ja-Latn-hepburn-heploc"), ("langid", "und-ZZ"), ("langid", "und-Zzzz-001"),
    ("locale", "iw-IL-u-ca-hebrew"), ("locale", "he-t-iw-m0-ungegn"), ("locale", "en-US-u-va-posix"), ("locale", "th-TH-u-nu-thai-ca-buddhist"), ("locale", "ja-JP-u-ca-japanese-x-lvariant-jp"),
    ("locale", "und-u-rg-uszzzz-sd-usca"), ("locale", "hi-t-en-h0-hybrid"), ("locale", "in-u-co-trad"), ("locale", "mo-MD-t-ro"),
    ("region", "ZZ"), ("region", "UK"), ("region", "419"), ("script", "Zzzz"), ("script", "Qaaa"), ("variant", "posix"), ("variant", "1994"),
];

const FIXED_BAD: &[(&str, &str)] = &[
    ("lang", ""),
    ("lang", "e"),
    ("lang", "abcd"),
    ("lang", "abcdefghi"),
    ("lang", "e1"),
    ("script", "Lat"),
    ("script", "Latn1"),
    ("script", "L4tn"),
    ("region", "USA"),
    ("region", "01"),
    ("region", "u1"),
    ("variant", "abcd"),
    ("variant", "1ab"),
    ("variant", "abcdefghi"),
    ("langid", ""),
    ("langid", "en-"),
    ("langid", "en--US"),
    ("langid", "en-US-Latn"),
    ("langid", "en-u-ca"),
    ("langid", "en-abc"),
    ("langid", "\u{00e9}n"),
    ("locale", "en-a-foo"),
    ("locale", "en-u-ca-toolongvalue"),
    ("locale", "en-u-ca-u-nu"),
    ("locale", "en-t-en-us-fr"),
    ("locale", "en-x-toolongtag1"),
    ("locale", "en-abc"),
    ("locale", "en-u-c\u{0430}"),
    ("locale", "en-unicodeext-ca"),
];

fn collect(cfg: &Cfg, good: bool, n: usize, phase: &str) -> Vec<MCase> {
    let mut out: Vec<MCase> = vec![];
    let mut seen = std::collections::HashSet::new();
    let fixed = if good { FIXED_GOOD } else { FIXED_BAD };
    for (m, l) in fixed {
        if verdict(m, l) == Some(good) {
            let c = MCase { mac: m.to_string(), lits: vec![l.to_string()], trailing_comma: false, expect_ok: good };
            if seen.insert(c.clone()) {
                out.push(c);
            }
        }
    }
    if !good {
        // sanitisation slips: a well-formed literal padded with (Unicode) whitespace / control
        // characters, or with one letter replaced by a character that case-folds to ASCII
        const PADS: &[&str] = &[" ", "\t", "\n", "\r\n", "\u{a0}", "\u{2003}", "\u{feff}", "\0", "\u{b}", "-", "_"];
        const FOLD: &[(char, char)] = &[('k', '\u{212a}'), ('s', '\u{17f}'), ('i', '\u{130}'), ('a', '\u{ff41}'), ('e', '\u{435}')];
        for (k, (m, l)) in FIXED_GOOD.iter().enumerate() {
            for j in 0..3usize {
                let pad = PADS[(k * 3 + j) % PADS.len()];
                let lit = match (k + j) % 3 {
                    0 => format!("{pad}{l}"),
                    1 => format!("{l}{pad}"),
                    _ => format!("{pad}{l}{pad}"),
                };
                if verdict(m, &lit) == Some(false) {
                    let c = MCase { mac: m.to_string(), lits: vec![lit], trailing_comma: false, expect_ok: false };
                    if seen.insert(c.clone()) {
                        out.push(c);
                    }
                }
            }
            let (from, to) = FOLD[k % FOLD.len()];
            if let Some(pos) = l.to_ascii_lowercase().find(from) {
                let mut lit: Vec<char> = l.chars().collect();
                lit[pos] = to;
                let lit: String = lit.into_iter().collect();
                if verdict(m, &lit) == Some(false) {
                    let c = MCase { mac: m.to_string(), lits: vec![lit], trailing_comma: false, expect_ok: false };
                    if seen.insert(c.clone()) {
                        out.push(c);
                    }
                }
            }
        }
        // literals chosen to contain the letters that have non-ASCII case partners: every partner
        // (U+212A lower-cases to k, U+017F upper-cases to S, U+0131 upper-cases to I, U+0130 and the
        // full-width / Cyrillic look-alikes for normalisers that go further), at every occurrence
        const FOLD_ALL: &[(char, char)] = &[('k', '\u{212a}'), ('s', '\u{17f}'), ('i', '\u{131}'), ('i', '\u{130}'), ('a', '\u{ff41}'), ('e', '\u{435}')];
        const FOLD_BASES: &[(&str, &str)] = &[
            ("lang", "ko"), ("lang", "sk"), ("lang", "is"), ("lang", "kis"), ("script", "Kana"), ("script", "Sink"), ("region", "KR"), ("region", "SK"), ("region", "IS"),
            ("variant", "kiswa"), ("variant", "sinak"), ("variant", "1kis"), ("langid", "ko-KR"), ("langid", "sk-Sink-SK-sinak"), ("langid", "is_IS"), ("langid", "en-UK"),
            ("locale", "ko-KR-u-ks-level1"), ("locale", "sk-t-is-k0-sinak-x-kis"), ("locale", "is-u-kiswa"), ("locale", "en-x-k"),
        ];
        for (m, l) in FOLD_BASES {
            if verdict(m, l) != Some(true) {
                continue;
            }
            for (from, to) in FOLD_ALL {
                let hits: Vec<usize> = l.chars().enumerate().filter(|(_, ch)| ch.to_ascii_lowercase() == *from).map(|(i, _)| i).collect();
                let mut lits: Vec<String> = hits.iter().map(|pos| l.chars().enumerate().map(|(i, ch)| if i == *pos { *to } else { ch }).collect()).collect();
                if hits.len() > 1 {
                    lits.push(l.chars().map(|ch| if ch.to_ascii_lowercase() == *from { *to } else { ch }).collect());
                }
                for lit in lits {
                    if verdict(m, &lit) == Some(false) {
                        let c = MCase { mac: m.to_string(), lits: vec![lit], trailing_comma: false, expect_ok: false };
                        if seen.insert(c.clone()) {
                            out.push(c);
                        }
                    }
                }
            }
        }
    }
    let strat = if good { s_good_single() } else { s_bad_single() };
    let ph = salt(phase);
    let mut idx = 0u64;
    // pool of good literals for the list macros
    let mut pool_langid: Vec<String> = vec!["en".into(), "und-Latn".into(), "de_AT".into()];
    let mut pool_locale: Vec<String> = vec!["en-u-ca-buddhist".into(), "und".into(), "fr-x-a".into()];
    while out.len() < n && idx < (n as u64) * 200 {
        let Some((mac, lit)) = gen_case(&strat, cfg.seed, ph, idx) else {
            idx += 1;
            continue;
        };
        idx += 1;
        if lit.len() > 120 {
            continue;
        }
        if verdict(&mac, &lit) != Some(good) {
            continue;
        }
        if good {
            if mac == "langid" && pool_langid.len() < 64 {
                pool_langid.push(lit.clone());
            }
            if mac == "locale" && pool_locale.len() < 64 {
                pool_locale.push(lit.clone());
            }
        }
        // every 6th case becomes a list invocation
        let c = if idx % 6 == 0 && (mac == "langid" || mac == "locale") {
            let pool = if mac == "langid" { &pool_langid } else { &pool_locale };
            // mostly short lists; now and then 8-40 elements (block-wise expansion, recursion
            // limits, arms that count)
            let k = if good && mix(idx ^ ph ^ 3) % 5 == 0 { 7 + (mix(idx ^ ph) % 33) as usize } else { 1 + (mix(idx ^ ph) % 3) as usize };
            let mut lits: Vec<String> = (0..k).map(|j| pool[(mix(idx.wrapping_mul(31) ^ j as u64 ^ ph) % pool.len() as u64) as usize].clone()).collect();
            let pos = (mix(idx ^ 77) % (lits.len() as u64 + 1)) as usize;
            lits.insert(pos, lit);
            let lm = if mac == "locale" {
                "locales"
            } else if mix(idx ^ 5) % 2 == 0 {
                "langids"
            } else {
                "langid_slice"
            };
            MCase { mac: lm.to_string(), lits, trailing_comma: mix(idx ^ 9) % 2 == 0, expect_ok: good }
        } else {
            MCase { mac, lits: vec![lit], trailing_comma: false, expect_ok: good }
        };
        let single = if c.lits.len() == 1 { Some((c.mac.clone(), c.lits[0].clone())) } else { None };
        if seen.insert(c.clone()) {
            out.push(c);
        }
        // hidden state inside the macro implementation (a cache that lives for the whole
        // compilation): the one-character neighbours of a literal are invoked right after it
        if good && idx % 4 == 1 {
            if let Some((mac, lit)) = single {
                for nb in crate::gen::neighbour_bytes(lit.as_bytes()) {
                    let Ok(nb) = String::from_utf8(nb) else { continue };
                    if verdict(&mac, &nb) == Some(true) {
                        let c2 = MCase { mac: mac.clone(), lits: vec![nb], trailing_comma: false, expect_ok: true };
                        if seen.insert(c2.clone()) {
                            out.push(c2);
                        }
                    }
                }
            }
        }
    }
    if good {
        // one very long list per list macro (130-300 literals): expansions that count or recurse per
        // element meet the default recursion limit of 128 there
        for (j, lm) in ["langids", "langid_slice", "locales"].iter().enumerate() {
            let pool = if *lm == "locales" { &pool_locale } else { &pool_langid };
            let k = 130 + (mix(cfg.seed ^ ph ^ j as u64) % 171) as usize;
            let lits: Vec<String> = (0..k).map(|i| pool[(mix(i as u64 ^ ph ^ (j as u64) << 20) % pool.len() as u64) as usize].clone()).collect();
            let c = MCase { mac: lm.to_string(), lits, trailing_comma: j % 2 == 0, expect_ok: true };
            if seen.insert(c.clone()) {
                out.push(c);
            }
        }
    }
    out
}

fn nontrivial_ok(c: &MCase) -> bool {
    if is_list(&c.mac) {
        return true;
    }
    let l = &c.lits[0];
    let toks = model::split(l.as_bytes());
    let canon = match c.mac.as_str() {
        "langid" | "locale" => l.parse::<unic_locale::Locale>().map(|x| x.to_string()).unwrap_or_default(),
        _ => String::new(),
    };
    toks.iter().any(|t| t.len() == 1) || l.eq_ignore_ascii_case("und") || toks[0].eq_ignore_ascii_case(b"und") || (!canon.is_empty() && canon != *l) || toks.iter().filter(|t| model::is_variant(t)).count() >= 2 || l.bytes().any(|b| b.is_ascii_uppercase() || b == b'_')
}

fn judge(cases: &[MCase], outcomes: &[Option<Outcome>], st: &mut Stats) {
    for (c, o) in cases.iter().zip(outcomes.iter()) {
        st.eval();
        let case = || mcase_json(c);
        let size = c.lits.iter().map(|l| l.len()).sum::<usize>() + c.lits.len() * 10;
        let Some(o) = o else {
            st.oracle_error(format!("no outcome for {}", invocation(c)));
            continue;
        };
        st.class(&format!("{}:{}", if c.expect_ok { "well-formed" } else { "ill-formed" }, c.mac));
        st.class(["form: by path", "form: by path", "form: imported, bare name", "form: inside a closure passed to a generic function", "form: initialiser of a const item", "form: initialiser of a static item", "form: through a macro_rules wrapper that holds two invocations", "form: inside a module that declares its own Vec / String / Result / Default / ... types"][ctx_of(c) as usize]);
        if c.expect_ok {
            if nontrivial_ok(c) {
                st.nontrivial(hash_str(&case().to_string()), case);
            }
            match o {
                Outcome::Equal => {}
                Outcome::Differs(d) => st.fail(format!("macro-value-differs-from-parsing:{}", c.mac), case(), size, format!("{}: {d}", invocation(c))),
                Outcome::Panics(d) => st.fail(format!("run-time-panic:{}", c.mac), case(), size, format!("{}: panicked at run time: {d}", invocation(c))),
                Outcome::CompileError(d) => st.fail(format!("well-formed-literal-does-not-compile:{}", c.mac), case(), size, format!("{}: {d}", invocation(c))),
                _ => st.oracle_error(format!("unexpected outcome {o:?} for {}", invocation(c))),
            }
        } else {
            st.nontrivial(hash_str(&case().to_string()), case);
            match o {
                Outcome::Rejected(_) => {}
                Outcome::Compiles => st.fail(format!("ill-formed-literal-compiles:{}", c.mac), case(), size, format!("{} compiles although the literal is ill-formed", invocation(c))),
                _ => st.oracle_error(format!("unexpected outcome {o:?} for {}", invocation(c))),
            }
        }
    }
}

pub fn run(cfg: &Cfg) -> Stats {
    let mut st = Stats::new();
    let n_ok = cfg.pick(1200, 5000);
    let n_bad = cfg.pick(800, 3000);
    let mut cases = collect(cfg, true, n_ok, "c16-good");
    let n_good = cases.len();
    cases.extend(collect(cfg, false, n_bad, "c16-bad"));
    if n_good < n_ok / 2 || cases.len() - n_good < n_bad / 2 {
        st.oracle_error(format!("generator produced only {} well-formed and {} ill-formed invocations", n_good, cases.len() - n_good));
        return st;
    }
    match evaluate(cfg, "run", &cases) {
        Err(e) => st.oracle_error(format!("macro crates could not be evaluated: {e}")),
        Ok(outcomes) => judge(&cases, &outcomes, &mut st),
    }
    st.subspace("ok-crate: invocations on well-formed literals (proptest + fixed boundary literals)", n_good as u64, false);
    st.subspace("bad-crate: invocations on must-reject literals (proptest near misses + fixed boundary literals)", (cases.len() - n_good) as u64, false);
    st.extra.insert("programs".into(), json!(2));
    st
}

pub fn replay(case: &Value, st: &mut Stats) {
    let Some(c) = mcase_from(case) else { return };
    let cfg = crate::props::triples::replay_cfg("C16");
    let cases = vec![c];
    match evaluate(&cfg, &format!("replay-{}", std::process::id()), &cases) {
        Err(e) => st.oracle_error(format!("macro crates could not be evaluated: {e}")),
        Ok(outcomes) => judge(&cases, &outcomes, st),
    }
    let base = cfg.verif.join("target").join("macrogen");
    let _ = std::fs::remove_dir_all(base.join(format!("replay-{}-ok", std::process::id())));
    let _ = std::fs::remove_dir_all(base.join(format!("replay-{}-bad", std::process::id())));
    let _: Option<PathBuf> = None;
}
