//! C07 — maximize only adds subtags, fills all three, and is idempotent (algebraic, no data).
#![cfg(feature = "likely")]

use crate::likely::Triple;
use crate::props::triples::*;
use crate::run::*;
use crate::values;
use serde_json::Value;
use unic_locale::{LanguageIdentifier, Locale};

pub const RULE: &str = "Domain: the (language, script, region) sweep of C06 (quick: all one- and two-component combinations, all full triples of the languages with two-component entries, a proptest sample of full triples; thorough: the whole universe) at function level, and proptest-generated LanguageIdentifiers / Locales (triple biased to CLDR keys and pruned values, 0-3 variants incl. duplicates, every extension shape) at method level. Oracle (library only, no CLDR data): maximize answers Some(v) => every given subtag is unchanged in v, v has language, script and region, v differs from the input, and maximize(v) is None; method returns true => same, plus variants and the whole extension part (ExtensionsMap ==, its string, every getter) untouched; returns false => value == original and prints the same; a second maximize() returns false and changes nothing. Non-trivial = maximize changed the identifier. Distinct by construction / hash set.";

pub fn check_triple(h: &Handles, t: Triple, st: &mut Stats, mode: Count) {
    netted(st, || h.case(t), 3, |st| check_triple_inner(h, t, st, mode));
}

fn check_triple_inner(h: &Handles, t: Triple, st: &mut Stats, mode: Count) {
    st.eval();
    let input = h.lib(t);
    let got = match lib_max(input) {
        Ok(g) => g,
        Err(p) => {
            st.fail(format!("maximize:{}", panic_sig(&p)), h.case(t), 3, format!("panicked: {p:?}"));
            return;
        }
    };
    let Some(v) = got else {
        st.class("unchanged");
        return;
    };
    st.class("changed");
    st.count(mode, hash_triple(t), || h.case(t));
    let shown = Handles::show_lib(&got);
    if t.l != 0 && v.0 != input.0 {
        st.fail("fn:given-language-replaced", h.case(t), 3, format!("maximize({}) = {shown}", h.lk.show(t)));
    }
    if t.s != 0 && v.1 != input.1 {
        st.fail("fn:given-script-replaced", h.case(t), 3, format!("maximize({}) = {shown}", h.lk.show(t)));
    }
    if t.r != 0 && v.2 != input.2 {
        st.fail("fn:given-region-replaced", h.case(t), 3, format!("maximize({}) = {shown}", h.lk.show(t)));
    }
    if v.0.is_empty() || v.1.is_none() || v.2.is_none() {
        st.fail("fn:result-not-full", h.case(t), 3, format!("maximize({}) = {shown} lacks a subtag", h.lk.show(t)));
    }
    if v == input {
        st.fail("fn:some-but-identical", h.case(t), 3, format!("maximize({}) = {shown}, i.e. 'changed' without a change", h.lk.show(t)));
    }
    match lib_max(v) {
        Ok(None) => {}
        Ok(Some(w)) => st.fail("fn:not-idempotent", h.case(t), 3, format!("maximize({}) = {shown}, maximizing that again gives {}", h.lk.show(t), Handles::show_lib(&Some(w)))),
        Err(p) => st.fail(format!("maximize-twice:{}", panic_sig(&p)), h.case(t), 3, format!("panicked: {p:?}")),
    }
}

pub fn check_parts(h: &Handles, p: &values::Parts, st: &mut Stats, mode: Count) {
    netted(st, || values::parts_case(p), values::parts_case(p).to_string().len(), |st| check_parts_inner(h, p, st, mode));
}

fn check_parts_inner(h: &Handles, p: &values::Parts, st: &mut Stats, mode: Count) {
    st.eval();
    let case = || values::parts_case(p);
    let size = case().to_string().len();
    let Some(b) = values::parse_parts(p) else {
        st.class("parts-not-buildable(skipped)");
        return;
    };
    let _ = h;
    let r = guard(|| {
        let li0 = LanguageIdentifier::from_parts(b.language, b.script, b.region, &b.variants);
        let mut li = li0.clone();
        let c = li.maximize();
        let mut li2 = li.clone();
        let c2 = li2.maximize();
        let loc0 = Locale::from_parts(b.language, b.script, b.region, &b.variants, b.ext.clone());
        let mut loc = loc0.clone();
        let lc = loc.id.maximize();
        (li0, li, c, li2, c2, loc0, loc, lc)
    });
    let (li0, li, c, li2, c2, loc0, loc, lc) = match r {
        Ok(x) => x,
        Err(pn) => {
            st.fail(format!("method:{}", panic_sig(&pn)), case(), size, format!("panicked: {pn:?}"));
            return;
        }
    };
    if c {
        st.class("method:changed");
        st.count(mode, hash_str(&case().to_string()), case);
        if !li0.language.is_empty() && li.language != li0.language {
            st.fail("method:given-language-replaced", case(), size, format!("{li0} -> {li}"));
        }
        if li0.script.is_some() && li.script != li0.script {
            st.fail("method:given-script-replaced", case(), size, format!("{li0} -> {li}"));
        }
        if li0.region.is_some() && li.region != li0.region {
            st.fail("method:given-region-replaced", case(), size, format!("{li0} -> {li}"));
        }
        if li.language.is_empty() || li.script.is_none() || li.region.is_none() {
            st.fail("method:result-not-full", case(), size, format!("{li0} -> {li}"));
        }
        if li == li0 {
            st.fail("method:true-but-unchanged", case(), size, format!("{li0}: maximize() returned true"));
        }
    } else {
        st.class("method:unchanged");
        if li != li0 || li.to_string() != li0.to_string() {
            st.fail("method:false-but-changed", case(), size, format!("{li0}: maximize() returned false, value is now {li}"));
        }
    }
    // a present-but-empty variant list (safe constructor from_raw_parts_unchecked; an empty list
    // is 'deduplicated and ordered') must come through untouched as well
    if li0.variants().len() == 0 {
        let tw0 = LanguageIdentifier::from_raw_parts_unchecked(b.language, b.script, b.region, Some(Box::new([])));
        let mut tw = tw0.clone();
        let ct = tw.maximize();
        let want = LanguageIdentifier::from_raw_parts_unchecked(li.language, li.script, li.region, Some(Box::new([])));
        if ct != c || tw != want {
            st.fail("method:present-but-empty-variant-list-touched", case(), size, format!("{li0} built with Some([]): maximize() = {ct}, the result is not the same identifier with Some([]) variants"));
        }
    }
    if li.variants().collect::<Vec<_>>() != li0.variants().collect::<Vec<_>>() {
        st.fail("method:variants-touched", case(), size, format!("{li0} -> {li}"));
    }
    if c2 || li2 != li || li2.to_string() != li.to_string() {
        st.fail("method:not-idempotent", case(), size, format!("{li0} -> {li} -> {li2} (second call returned {c2})"));
    }
    // Locale: id behaves like the LanguageIdentifier, extensions untouched
    if lc != c || loc.id != li {
        st.fail("method:locale-id-differs-from-langid", case(), size, format!("LanguageIdentifier -> {li} ({c}), Locale.id -> {} ({lc})", loc.id));
    }
    if loc.extensions != loc0.extensions || loc.extensions.to_string() != loc0.extensions.to_string() || crate::obs::obs_ext(&loc.extensions, Default::default()) != crate::obs::obs_ext(&loc0.extensions, Default::default()) {
        st.fail("method:extensions-touched", case(), size, format!("{loc0} -> {loc}"));
    }
    let tail = |s: &str, id: &str| s.strip_prefix(id).map(|x| x.to_string());
    if tail(&loc.to_string(), &loc.id.to_string()) != tail(&loc0.to_string(), &loc0.id.to_string()) {
        st.fail("method:extension-text-touched", case(), size, format!("{loc0} -> {loc}"));
    }
}

pub fn run(cfg: &Cfg) -> Stats {
    let h = match load_or_error(cfg) {
        Ok(h) => h,
        Err(st) => return st,
    };
    let mut total = sweep(cfg, &h, "c07", &|t, st, mode| check_triple(&h, t, st, mode));
    let n = cfg.pick(1_000_000, 6_000_000);
    let s = run_strategy(&s_dressed(&h), cfg.seed, "c07-dressed", n, |d, st| check_parts(&h, &h.dressed_parts(d), st, Count::Hash));
    total = total.merge(s);
    total.subspace("LanguageIdentifier / Locale built from a biased triple + variants + extensions, maximize() twice (proptest)", n, false);
    total
}

pub fn replay(case: &Value, st: &mut Stats) {
    let cfg = replay_cfg("C07");
    let Ok(h) = Handles::load(&cfg) else { return };
    match case["kind"].as_str() {
        Some("triple") => {
            if let Some(t) = h.from_case(case) {
                check_triple(&h, t, st, Count::No);
            }
        }
        Some("parts") => {
            if let Some(p) = values::parts_from_case(case) {
                check_parts(&h, &p, st, Count::No);
            }
        }
        _ => {}
    }
}
