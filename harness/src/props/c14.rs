//! C14 — character_direction agrees with the CLDR layout data. The same source is built twice
//! (likelysubtags on = the main binary, off = VERIF_BIN_NOLIKELY); the main binary runs its own
//! configuration in-process and the other one in a child, then merges.

use crate::gen;
use crate::likely::{Dir, Layout, Triple};
use crate::props::triples::*;
use crate::run::*;
use serde_json::{json, Value};
use std::collections::{BTreeSet, HashMap};
use unic_locale::{LanguageIdentifier, Locale};

pub const RULE: &str = "Domain: (a) every locale name under unic-langid-impl/data/cldr-misc-full/main (about 710, exhaustive), bare, with 1-2 variants added and as the id of a Locale with extensions; (b) (language, script, region) triples over every subtag of likelySubtags.json plus the scripts and languages of the layout data plus absent / unknown representatives - quick: all one- and two-component combinations, full triples of the richest languages and a proptest sample; thorough: the whole universe; (c) proptest-generated locales (G2) whose id is asked with and without its variants. All of it in four builds of the harness: likelysubtags on through both facade crates (main), on through unic-locale's feature only, on through unic-langid's feature only, and off; in the main build every direction query of a CLDR locale is repeated after maximize()/minimize() calls on other identifiers of the same language (hidden state). Oracle: a model read at run time from the layout.json files (script -> direction from the names that carry a script, languages that occur right-to-left, languages that occur with two directions). Feature on: direction == characterOrder for every CLDR locale. Feature off: a mismatch is tolerated only for a script-less identifier whose language CLDR lists with two directions. Both: a listed script decides alone; script absent or unlisted and language never right-to-left in CLDR => LTR; variants and extensions never change the answer. Non-trivial = language occurs right-to-left in CLDR or the script is listed (counted once, for the feature-on build; the feature-off build's counts are reported separately). Distinct by construction / hash set.";

pub const ON: bool = cfg!(any(feature = "likely", feature = "likely_via_locale", feature = "likely_via_langid"));
pub const CONFIG: &str = if cfg!(feature = "likely") {
    "likelysubtags on (both facade crates)"
} else if cfg!(feature = "likely_via_locale") {
    "likelysubtags on (unic-locale's feature only)"
} else if cfg!(feature = "likely_via_langid") {
    "likelysubtags on (unic-langid's feature only)"
} else {
    "likelysubtags off"
};

/// Calls made on this thread right before a direction query; the answer must not depend on
/// them (hidden state such as a one-entry cache with an incomplete key): maximize / minimize
/// and character_direction on identifiers of the same language with every listed script, and
/// on script-less identifiers of the same language with other regions (every region the
/// likely-subtags data pair with that language, plus a fixed handful).
fn prior_calls(c: &Ctx, lang: &str, after_each: &mut dyn FnMut(&str)) {
    let mut touch = |text: String| {
        if let Ok(li) = text.parse::<LanguageIdentifier>() {
            // unrelated identifiers first: they evict whatever the queried identifier itself
            // left in a small cache, so that the prior call really is computed and stored
            for other in ["ar", "en", "he-IL", "zh-Hant", "ur-IN", "fa", "ks", "sd"] {
                if !other.starts_with(lang) {
                    if let Ok(o) = other.parse::<LanguageIdentifier>() {
                        let _ = o.character_direction();
                    }
                }
            }
            let _ = li.character_direction();
            after_each(&text);
            #[cfg(feature = "likely")]
            {
                let mut m = li.clone();
                m.maximize();
                m.minimize();
                after_each(&text);
            }
        }
    };
    for s in c.layout.script_dir.keys() {
        for r in ["", "-PK", "-ML", "-001"] {
            touch(format!("{lang}-{s}{r}"));
        }
    }
    if let Some(rs) = c.lang_regions.get(lang) {
        for r in rs {
            touch(format!("{lang}-{r}"));
        }
    }
    for r in ["PK", "IR", "AF", "IN", "CN", "ML", "TR", "RU", "001", "419"] {
        touch(format!("{lang}-{r}"));
    }
    touch(format!("{lang}-1abc"));
}

fn dir_of(li: &LanguageIdentifier) -> Dir {
    match li.character_direction() {
        unic_langid::CharacterDirection::LTR => Dir::Ltr,
        unic_langid::CharacterDirection::RTL => Dir::Rtl,
        unic_langid::CharacterDirection::TTB => Dir::Ttb,
    }
}

pub struct Ctx {
    pub layout: Layout,
    pub h: Handles,
    /// per interned script: Some(dir) when CLDR lists it
    pub script_dir: Vec<Option<Dir>>,
    pub lang_rtl: Vec<bool>,
    pub script_by_name: HashMap<String, Dir>,
    pub rtl_langs: BTreeSet<String>,
    /// language -> regions that the likely-subtags data pair with it (language-region keys)
    pub lang_regions: HashMap<String, Vec<String>>,
}

impl Ctx {
    pub fn load(cfg: &Cfg) -> Result<Ctx, String> {
        let layout = Layout::load(&cfg.repo)?;
        if layout.locales.len() < 100 {
            return Err(format!("only {} layout files found", layout.locales.len()));
        }
        let mut h = Handles::load(cfg)?;
        // make sure every script / language of the layout data is part of the swept universe
        for s in layout.script_dir.keys() {
            if !h.lk.uni.scripts.contains(s) {
                h.lk.uni.scripts.push(s.clone());
                h.scripts.push(Some(s.parse().map_err(|_| format!("library rejects layout script {s}"))?));
            }
        }
        for l in layout.rtl_langs.iter().chain(layout.multi_dir_langs.iter()) {
            // the language itself and long languages that merely contain it (never listed by CLDR)
            let mut forms = vec![l.clone()];
            if l.len() <= 3 {
                forms.push(format!("{l}{}", &"xxx"[..5 - l.len()]));
                forms.push(format!("{l}{}", &"qrstuv"[..8 - l.len()]));
                forms.push(format!("{}{l}", &"zzz"[..5 - l.len()]));
            }
            for f in forms {
                if !h.lk.uni.langs.contains(&f) {
                    h.langs.push(f.parse().map_err(|_| format!("library rejects language {f}"))?);
                    h.lk.uni.langs.push(f);
                }
            }
        }
        let script_dir = h.lk.uni.scripts.iter().map(|s| layout.script_dir.get(s).copied()).collect();
        let lang_rtl = h.lk.uni.langs.iter().map(|l| layout.rtl_langs.contains(l)).collect();
        let mut lang_regions: HashMap<String, Vec<String>> = HashMap::new();
        for (l, r) in h.lk.lang_region.keys() {
            lang_regions.entry(h.lk.uni.langs[*l as usize].clone()).or_default().push(h.lk.uni.regions[*r as usize].clone());
        }
        for v in lang_regions.values_mut() {
            v.sort();
        }
        Ok(Ctx { lang_regions, script_by_name: layout.script_dir.iter().map(|(k, v)| (k.clone(), *v)).collect(), rtl_langs: layout.rtl_langs.clone(), layout, h, script_dir, lang_rtl })
    }
}

fn name_case(name: &str) -> Value {
    json!({"kind": "cldr-locale", "name": name, "likelysubtags": ON, "config": CONFIG})
}

pub fn check_name(c: &Ctx, name: &str, want: Dir, st: &mut Stats) {
    st.eval();
    let case = || name_case(name);
    let r = guard(|| {
        let li: LanguageIdentifier = name.parse().map_err(|e| format!("{e:?}"))?;
        let first = dir_of(&li);
        // the query is repeated after every single prior call, so whichever call leaves the
        // misleading state behind is immediately followed by the query it misleads
        let mut changed: Option<String> = None;
        prior_calls(c, li.language.as_str(), &mut |prior| {
            let d = dir_of(&li);
            if d != first && changed.is_none() {
                changed = Some(format!("HISTORY {first:?} {d:?} (after a call on {prior})"));
            }
        });
        if let Some(e) = changed {
            return Err(e);
        }
        let d = dir_of(&li);
        if d != first {
            return Err(format!("HISTORY {first:?} {d:?}"));
        }
        let with_var: LanguageIdentifier = format!("{name}-1abc-zzzzz").parse().map_err(|e| format!("{e:?}"))?;
        let loc: Locale = format!("{name}-u-ca-islamic-t-ar-h0-hybrid-x-rtl").parse().map_err(|e| format!("{e:?}"))?;
        Ok::<_, String>((li, d, dir_of(&with_var), dir_of(&loc.id)))
    });
    let (li, d, dv, dl) = match r {
        Ok(Ok(x)) => x,
        Ok(Err(e)) if e.starts_with("HISTORY") => {
            st.fail("direction-depends-on-earlier-calls", case(), name.len(), format!("{name}: character_direction() before / after character_direction(), maximize() and minimize() calls on other identifiers of the same language: {}", &e[8..]));
            return;
        }
        Ok(Err(e)) => {
            st.oracle_error(format!("CLDR locale name {name} does not parse: {e}"));
            return;
        }
        Err(p) => {
            st.fail(panic_sig(&p), case(), name.len(), format!("panicked: {p:?}"));
            return;
        }
    };
    let lang = li.language.as_str().to_string();
    if d != want {
        let tolerated = !ON && li.script.is_none() && c.layout.multi_dir_langs.contains(&lang);
        if tolerated {
            st.class("cldr-locale: mismatch tolerated (feature off, script-less, language with two directions)");
        } else {
            st.fail(format!("cldr-locale-mismatch:{}", if ON { "feature-on" } else { "feature-off" }), case(), name.len(), format!("{name}: character_direction() = {d:?}, CLDR characterOrder = {want:?} [{CONFIG}]"));
        }
    } else {
        st.class("cldr-locale: agrees");
    }
    if dv != d || dl != d {
        st.fail("variants-or-extensions-matter", case(), name.len(), format!("{name}: {d:?}, with variants {dv:?}, as Locale.id with extensions {dl:?}"));
    }
    if c.rtl_langs.contains(&lang) || li.script.map_or(false, |s| c.script_by_name.contains_key(s.as_str())) {
        st.count(if cfg!(feature = "likely") { Count::Enum } else { Count::No }, hash_str(name), case);
    }
}

fn triple_case(c: &Ctx, t: Triple) -> Value {
    let mut v = c.h.case(t);
    v["likelysubtags"] = json!(ON);
    v["config"] = json!(CONFIG);
    v
}

pub fn check_triple(c: &Ctx, t: Triple, st: &mut Stats, mode: Count) {
    st.eval();
    let (l, s, r) = c.h.lib(t);
    let case = || triple_case(c, t);
    let res = guard(|| {
        let li = LanguageIdentifier::from_parts(l, s, r, &[]);
        let d = dir_of(&li);
        let v1: unic_locale::subtags::Variant = "1abc".parse().unwrap();
        let v2: unic_locale::subtags::Variant = "valencia".parse().unwrap();
        let li2 = LanguageIdentifier::from_parts(l, s, r, &[v2, v1]);
        (d, dir_of(&li2))
    });
    let (d, dv) = match res {
        Ok(x) => x,
        Err(p) => {
            st.fail(panic_sig(&p), case(), 3, format!("panicked: {p:?}"));
            return;
        }
    };
    let listed = c.script_dir[t.s as usize];
    let rtl_lang = c.lang_rtl[t.l as usize];
    let shown = c.h.lk.show(t);
    match listed {
        Some(want) => {
            st.class("listed-script");
            if d != want {
                st.fail(format!("listed-script-does-not-decide:{want:?}"), case(), 3, format!("{shown}: {d:?}, but CLDR lists script {} as {want:?}", c.h.lk.uni.scripts[t.s as usize]));
            }
        }
        None if !rtl_lang => {
            st.class("unlisted-or-absent-script, language never RTL");
            if d != Dir::Ltr {
                st.fail(format!("not-ltr-without-rtl-language-or-listed-script:{}", if t.s == 0 { "no-script" } else { "unlisted-script" }), case(), 3, format!("{shown}: {d:?}"));
            }
        }
        None => st.class("RTL-capable language without a listed script (not prescribed)"),
    }
    if dv != d {
        st.fail("variants-matter", case(), 3, format!("{shown}: {d:?}, with variants {dv:?}"));
    }
    if listed.is_some() || rtl_lang {
        st.count(if cfg!(feature = "likely") { mode } else { Count::No }, hash_triple(t), case);
    }
}

pub fn check_ast(c: &Ctx, a: &gen::Ast, st: &mut Stats) {
    st.eval();
    let b = a.render();
    let case = || {
        let mut v = bytes_case(&b);
        v["likelysubtags"] = json!(ON);
        v["config"] = json!(CONFIG);
        if !cfg!(feature = "likely") {
            // not minimised by the parent (each evaluation would need a child process)
            v["kind"] = json!("bytes-off");
        }
        v
    };
    let Ok(Ok(loc)) = guard(|| Locale::from_bytes(&b)) else {
        st.class("g2-not-accepted(skipped)");
        return;
    };
    let r = guard(|| {
        let d = dir_of(&loc.id);
        let bare = LanguageIdentifier::from_parts(loc.id.language, loc.id.script, loc.id.region, &[]);
        let li: LanguageIdentifier = loc.clone().into();
        (d, dir_of(&bare), dir_of(&li))
    });
    match r {
        Err(p) => st.fail(panic_sig(&p), case(), b.len(), format!("panicked: {p:?}")),
        Ok((d, db, dl)) => {
            if d != db || d != dl {
                st.fail("variants-or-extensions-matter", case(), b.len(), format!("{loc}: id {d:?}, without variants {db:?}, converted {dl:?}"));
            }
            if let Some(s) = loc.id.script {
                if let Some(want) = c.script_by_name.get(s.as_str()) {
                    if d != *want {
                        st.fail(format!("listed-script-does-not-decide:{want:?}"), case(), b.len(), format!("{loc}: {d:?}"));
                    }
                    st.count(if cfg!(feature = "likely") { Count::Hash } else { Count::No }, hash_bytes(&b), case);
                }
            }
        }
    }
}

/// everything for the configuration this binary was built with
pub fn run_config(cfg: &Cfg) -> Stats {
    let c = match Ctx::load(cfg) {
        Ok(c) => c,
        Err(e) => {
            let mut st = Stats::new();
            st.oracle_error(format!("cannot build the layout model: {e}"));
            return st;
        }
    };
    let mut total = Stats::new();
    let names = &c.layout.locales;
    let s = par_range(names.len() as u64, |i, st| check_name(&c, &names[i as usize].0, names[i as usize].1, st));
    total = total.merge(s);
    total.subspace(&format!("every CLDR layout locale ({}), {CONFIG}", names.len()), names.len() as u64, true);
    // contended calls (G31): every worker thread asks about the same few CLDR locales - the ones that
    // carry a script subtag (both directions occur among them) and a handful of plain ones - in a
    // scrambled order at the same time
    {
        let mut hot: Vec<usize> = (0..names.len()).filter(|i| names[*i].0.split('-').any(|t| t.len() == 4 && t.chars().all(|ch| ch.is_ascii_alphabetic()))).collect();
        let with_script = hot.len();
        hot.extend((0..names.len()).step_by((names.len() / 6).max(1)).take(6));
        if with_script > 0 {
            let n = cfg.pick(300_000u64, 3_000_000u64);
            let k = hot.len() as u64;
            let s = par_range(n, |i, st| {
                let j = hot[(mix(i ^ 0x9e3779b9) % k) as usize];
                check_name(&c, &names[j].0, names[j].1, st)
            });
            total = total.merge(s);
            total.subspace(&format!("contended calls: {k} CLDR locales ({with_script} with a script subtag) asked by all threads at once, scrambled order, {CONFIG}"), n, false);
        }
    }
    total = total.merge(sweep(cfg, &c.h, "c14", &|t, st, mode| check_triple(&c, t, st, mode)));
    let n = cfg.pick(100_000, 2_000_000);
    // G2 ids with scripts drawn from the listed ones half of the time
    let listed: Vec<String> = c.layout.script_dir.keys().cloned().collect();
    let rtl: Vec<String> = c.layout.rtl_langs.iter().cloned().collect();
    use proptest::prelude::*;
    let strat = (gen::s_ast(), proptest::sample::select(listed), proptest::sample::select(rtl), 0u8..4).prop_map(|(mut a, sc, la, k)| {
        if k & 1 == 1 {
            a.id.script = Some(sc);
        }
        if k & 2 == 2 {
            a.id.lang = la;
        }
        a
    });
    let s = run_strategy(&strat, cfg.seed, "c14-g2", n, |a, st| check_ast(&c, a, st));
    total = total.merge(s);
    total.subspace("G2 locales with listed scripts / RTL languages mixed in: id vs id without variants vs converted (proptest)", n, false);
    total.extra.insert("layout_locales".into(), json!(names.len()));
    total.extra.insert("listed_scripts".into(), json!(c.layout.script_dir.iter().map(|(k, v)| format!("{k}:{v:?}")).collect::<Vec<_>>()));
    total.extra.insert("rtl_languages".into(), json!(c.layout.rtl_langs));
    total.extra.insert("two_direction_languages".into(), json!(c.layout.multi_dir_langs));
    total
}

/// child mode: run this binary's configuration and print the statistics as one JSON line
pub fn child_mode(cfg: &Cfg) -> i32 {
    let st = run_config(cfg);
    println!("STATS {}", crate::props::c01::stats_to_json(&st));
    0
}

fn other_build(cfg: &Cfg, var: &str) -> Result<Stats, String> {
    let bin = std::env::var(var).map_err(|_| format!("{var} is not set (the other feature builds of the harness are needed)"))?;
    let out = std::process::Command::new(&bin)
        .args(["C14", "--config-child", cfg.tier_name()])
        .env("VERIF_SEED", (cfg.seed as i64).to_string())
        .output()
        .map_err(|e| format!("cannot run {bin}: {e}"))?;
    let text = String::from_utf8_lossy(&out.stdout);
    let line = text.lines().rev().find(|l| l.starts_with("STATS ")).ok_or(format!("child printed no statistics (status {:?}): {}", out.status.code(), String::from_utf8_lossy(&out.stderr).chars().take(400).collect::<String>()))?;
    let v: Value = serde_json::from_str(&line[6..]).map_err(|e| e.to_string())?;
    Ok(crate::props::c01::stats_from_json(&v, &[]))
}

pub const OTHER_BUILDS: &[(&str, &str)] = &[("VERIF_BIN_NOLIKELY", "feature-off"), ("VERIF_BIN_VIALOCALE", "on-via-unic-locale"), ("VERIF_BIN_VIALANGID", "on-via-unic-langid")];

pub fn run(cfg: &Cfg) -> Stats {
    let mut total = run_config(cfg);
    if !cfg!(feature = "likely") {
        total.oracle_error("the main harness binary must be built with likelysubtags".into());
        return total;
    }
    let mut report = vec![];
    for (var, label) in OTHER_BUILDS {
        match other_build(cfg, var) {
            Err(e) => total.oracle_error(e),
            Ok(mut o) => {
                // the other build's cases are the same inputs under another configuration: its
                // evaluations, classes and failures are merged, its non-trivial counts only reported
                let nt = o.nt_enum;
                o.nt_enum = 0;
                o.samples.clear();
                let classes = std::mem::take(&mut o.classes);
                for (k, v) in classes {
                    o.classes.insert(format!("{label}: {k}"), v);
                }
                report.push(json!({"build": label, "evaluations": o.evals, "nontrivial_counted_separately": nt}));
                total = total.merge(o);
            }
        }
    }
    total.extra.insert("other_builds".into(), json!(report));
    total
}

pub fn replay(case: &Value, st: &mut Stats) {
    let want_cfg = case["config"].as_str().unwrap_or(CONFIG).to_string();
    if want_cfg != CONFIG {
        // the case belongs to another build
        let var = if want_cfg.contains("unic-locale's") {
            "VERIF_BIN_VIALOCALE"
        } else if want_cfg.contains("unic-langid's") {
            "VERIF_BIN_VIALANGID"
        } else {
            "VERIF_BIN_NOLIKELY"
        };
        if let Ok(bin) = std::env::var(var) {
            let tmp = std::env::temp_dir().join(format!("c14-replay-{}.json", std::process::id()));
            let _ = std::fs::write(&tmp, json!({"case": case}).to_string());
            if let Ok(out) = std::process::Command::new(bin).args(["C14", "--replay", &tmp.display().to_string()]).output() {
                let text = String::from_utf8_lossy(&out.stdout).to_string();
                if out.status.code() == Some(1) {
                    let sig = text.lines().find_map(|l| l.trim().strip_prefix("signature: ")).unwrap_or("other-build").to_string();
                    let detail: String = text.lines().filter_map(|l| l.trim().strip_prefix("detail: ")).collect::<Vec<_>>().join(" / ");
                    st.fail(sig, case.clone(), 3, format!("in the other build: {detail}"));
                }
            }
            let _ = std::fs::remove_file(&tmp);
        }
        return;
    }
    let cfg = replay_cfg("C14");
    let Ok(c) = Ctx::load(&cfg) else { return };
    match case["kind"].as_str() {
        Some("cldr-locale") => {
            if let Some(n) = case["name"].as_str() {
                if let Some((n, d)) = c.layout.locales.iter().find(|(k, _)| k == n) {
                    check_name(&c, n, *d, st);
                }
            }
        }
        Some("triple") => {
            if let Some(t) = c.h.from_case(case) {
                check_triple(&c, t, st, Count::No);
            }
        }
        Some("bytes") | Some("bytes-off") => {
            // re-evaluated directly on the parsed bytes
            if let Some(b) = case_bytes(case) {
                if let Ok(Ok(loc)) = guard(|| Locale::from_bytes(&b)) {
                    let d = dir_of(&loc.id);
                    let bare = LanguageIdentifier::from_parts(loc.id.language, loc.id.script, loc.id.region, &[]);
                    if d != dir_of(&bare) {
                        st.fail("variants-or-extensions-matter", case.clone(), b.len(), format!("{loc}"));
                    }
                    if let Some(s) = loc.id.script {
                        if let Some(want) = c.script_by_name.get(s.as_str()) {
                            if d != *want {
                                st.fail(format!("listed-script-does-not-decide:{want:?}"), case.clone(), b.len(), format!("{loc}: {d:?}"));
                            }
                        }
                    }
                }
            }
        }
        _ => {}
    }
}
