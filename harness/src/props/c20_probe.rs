//! C20 compile probe. This file contains NO `cfg(feature ...)` code and uses only the feature-less
//! public API, in ways whose type checking depends on which trait impls and inherent methods exist:
//! comparisons with an inferred operand, `Into` / `AsRef` / `Default` inference, trait bounds on the
//! public types, iterator adapters on the getters. It compiles against the pinned tree under every
//! feature set. If it stops compiling under *some* feature sets only, the one thing that differs
//! between those builds is the library's features: "enabling a feature changes the result of
//! comparing / matching / ..." at compile time (a second `PartialEq` impl that makes `==` ambiguous,
//! a derive that became `cfg_attr(not(feature ...))`, an inherent method that shadows a trait's).
//! `./check C20` reports a variant build whose errors all sit in this file as a violation when
//! another variant built; every other build failure stays inconclusive.

use std::collections::{BTreeSet, HashSet};
use std::fmt::{Debug, Display};
use std::hash::Hash;
use std::str::FromStr;
use unic_locale::extensions::{ExtensionsMap, PrivateExtensionList, TransformExtensionList, UnicodeExtensionList};
use unic_locale::subtags::{Language, Region, Script, Variant};
use unic_locale::{LanguageIdentifier, Locale};

fn value_type<T: Clone + Default + Debug + Display + FromStr + PartialEq + Eq + PartialOrd + Ord + Hash + Send + Sync + 'static>() -> usize {
    std::mem::size_of::<T>()
}
fn list_type<T: Clone + Default + Debug + Display + PartialEq + Eq + PartialOrd + Ord + Hash + Send + Sync + 'static>() -> usize {
    std::mem::size_of::<T>()
}
fn copy_type<T: Copy + Debug + Display + FromStr + Eq + Ord + Hash + Send + Sync + 'static>() -> usize {
    std::mem::size_of::<T>()
}
fn as_id<T: AsRef<LanguageIdentifier>>(t: &T) -> String {
    t.as_ref().to_string()
}

/// Returns a line for the transcript (identical in every build).
pub fn probe() -> String {
    let mut n = 0u32;
    let loc: Locale = "en-US-u-ca-buddhist".parse().unwrap();
    let li: LanguageIdentifier = "en-US".parse().unwrap();
    // comparisons whose right-hand side is inferred: one candidate impl only
    if loc == "en-US-u-ca-buddhist".parse().unwrap() {
        n += 1;
    }
    if loc != Default::default() {
        n += 1;
    }
    if loc.extensions != Default::default() {
        n += 1;
    }
    if loc.extensions.unicode != Default::default() && loc.extensions.transform == Default::default() && loc.extensions.private == Default::default() {
        n += 1;
    }
    if loc.id.language != Language::default() {
        n += 1;
    }
    if li < "fr".parse().unwrap() && loc < "fr".parse().unwrap() {
        n += 1;
    }
    // comparisons with text
    if li == "en-US" && li.language == "en" && li.region.map_or(false, |r| r == "US") {
        n += 1;
    }
    // conversions by inference
    let l2: LanguageIdentifier = loc.clone().into();
    let loc2: Locale = l2.clone().into();
    let script: Script = "Latn".parse().unwrap();
    let region: Region = "US".parse().unwrap();
    let variant: Variant = "valencia".parse().unwrap();
    let s_int: u32 = script.into();
    let r_int: u32 = region.into();
    let v_int: u64 = variant.into();
    let l_int: Option<u64> = li.language.into();
    let s_txt: &str = (&script).into();
    let r_txt: &str = (&region).into();
    let none_lang = Language::try_from(None::<&str>).unwrap();
    n += (s_int != 0) as u32 + (r_int != 0) as u32 + (v_int != 0) as u32 + l_int.is_some() as u32 + (s_txt.len() + r_txt.len()) as u32 + none_lang.is_empty() as u32;
    // AsRef and matches across the two types
    n += (as_id(&loc) == as_id(&li)) as u32 + (as_id(&loc2) == l2.to_string()) as u32;
    n += li.matches(&loc, false, true) as u32 + loc.matches(&loc2, true, true) as u32 + li.matches(&li, false, false) as u32;
    // method resolution on the public types
    let texts = [loc.to_string(), li.to_string(), li.language.to_string(), script.to_string(), region.to_string(), variant.to_string(), loc.extensions.to_string()];
    n += texts.iter().map(|t| t.len() as u32).sum::<u32>();
    n += li.language.as_str().len() as u32 + script.as_str().len() as u32 + region.as_str().len() as u32 + variant.as_str().len() as u32;
    // getters as iterators
    n += li.variants().len() as u32 + loc.extensions.unicode.attributes().count() as u32 + loc.extensions.unicode.keyword_keys().map(|k| k.len()).sum::<usize>() as u32;
    n += loc.extensions.unicode.keyword("ca").map(|i| i.len()).unwrap_or(0) as u32 + loc.extensions.transform.tfield_keys().len() as u32 + loc.extensions.private.tags().len() as u32;
    // the public types in ordered and hashed collections
    let mut bt: BTreeSet<Locale> = BTreeSet::new();
    bt.insert(loc.clone());
    bt.insert(loc2.clone());
    let mut hs: HashSet<LanguageIdentifier> = HashSet::new();
    hs.insert(li.clone());
    hs.insert(l2);
    let mut v = vec![loc2, loc];
    v.sort();
    v.dedup();
    n += bt.len() as u32 + hs.len() as u32 + v.len() as u32;
    // trait surface
    let sizes = value_type::<Locale>() + value_type::<LanguageIdentifier>() + value_type::<ExtensionsMap>() + list_type::<UnicodeExtensionList>() + list_type::<TransformExtensionList>() + list_type::<PrivateExtensionList>() + copy_type::<Script>() + copy_type::<Region>() + copy_type::<Variant>() + copy_type::<Language>();
    let _ = sizes;
    format!("probe {n}")
}
