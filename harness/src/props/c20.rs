//! C20 — optional features are purely additive. The same harness source is built through the
//! facade crates under several feature sets; every build writes a *transcript* of the same
//! seeded corpus of parse / print / compare / match / mutate calls; the transcripts must be
//! identical line by line (character_direction is a separate column with its own rule).

use crate::gen;
use crate::likely::Layout;
use crate::model;
use crate::ops::{self, Op};
use crate::run::*;
use rayon::prelude::*;
use serde_json::{json, Value};
use std::collections::hash_map::DefaultHasher;
use std::hash::{Hash, Hasher};
use std::io::{BufRead, BufReader, Write};
use std::path::PathBuf;
use unic_locale::{LanguageIdentifier, Locale};

pub const RULE: &str = "Domain: one deterministic, seeded corpus evaluated by every build of the same harness source (feature sets of {likelysubtags, serde, macros}: quick = none, {l}, {s}, {m}, {l,s} (main), {l,s,m}; thorough = all 8): section A every 'en-' + locale-alphabet token sequence of 1-3 subtags, every 1-2 subtag sequence of the full boundary alphabet (exhaustive) and the sanitisation-slip strings (padding, case-folding look-alikes such as U+212A); B proptest well-formed locales (all extension shapes, case / separator masks); C near-miss mutations; D language-id strings and near misses - each through Locale::from_bytes, LanguageIdentifier::from_bytes, both canonicalize functions (through the facade crates), FromStr of Locale / LanguageIdentifier / ExtensionsMap / Language / Script / Region / Variant and TryFrom for Language, Display plain and under width / precision / fill format specs, Debug, hash; E all pairs of a 160 | 400-value pool: ==, cmp, hash equality, matches under the four flag pairs for Locale and LanguageIdentifier; F proptest mutation histories (0-40 public mutator / getter calls, maximize/minimize left out) with the call result and to_string() after every step; G character_direction of every accepted identifier of B and D and of every CLDR layout locale. Oracle: for every line index, sections A-F are byte-identical in all builds; a G line may differ only between a build with and one without likelysubtags, and only for a script-less identifier (the documented refinement); builds with the same likelysubtags setting must agree on every G line. Every build also compiles a probe file without cfg(feature) code (feature-less API, inference- and coherence-sensitive uses): a feature set under which only that file fails to compile while another set builds is a failure. Non-trivial = a line whose input is not a single subtag (histories: at least one mutation step); distinct lines counted through a hash set over the reference build's transcript.";

pub fn features() -> String {
    let mut f = vec![];
    if cfg!(feature = "likely") {
        f.push("likelysubtags");
    }
    if cfg!(feature = "serde") {
        f.push("serde");
    }
    if cfg!(feature = "macros") {
        f.push("macros");
    }
    if f.is_empty() {
        "none".into()
    } else {
        f.join("+")
    }
}

fn h<T: Hash>(t: &T) -> u64 {
    let mut s = DefaultHasher::new();
    t.hash(&mut s);
    s.finish()
}

fn parse_line(b: &[u8]) -> String {
    let r = guard(|| {
        let l = Locale::from_bytes(b);
        let li = LanguageIdentifier::from_bytes(b);
        let c1 = unic_locale::canonicalize(b);
        let c2 = unic_langid::canonicalize(b);
        // Display under format specs, and Debug, are part of 'serialising' too
        let ls = match &l {
            Ok(v) => format!("Ok({v} #{:016x} ext={} [{v:>30}|{v:.4}|{v:*<9}] dbg#{:016x})", h(v), v.extensions, hash_str(&format!("{v:?}"))),
            Err(e) => format!("Err({e:?}/{e})"),
        };
        let lis = match &li {
            Ok(v) => format!("Ok({v} #{:016x} [{v:>24}|{v:.5}|{v:*<8}|{:>6}|{:.1}] dbg={v:?})", h(v), v.language, v.language),
            Err(e) => format!("Err({e:?}/{e})"),
        };
        // the other public text -> value routes (FromStr, TryFrom, the subtag and extension
        // parsers): a feature-gated branch may sit in any one of them
        let routes = match std::str::from_utf8(b) {
            Ok(s) => {
                use unic_locale::subtags::{Language, Region, Script, Variant};
                let show = |r: Result<String, String>| match r {
                    Ok(v) => format!("Ok({v})"),
                    Err(e) => format!("Err({e})"),
                };
                // comparison with the text as spelled in the input (true only for a canonical spelling), and
                // the raw-representation route for a language subtag (the integer of the lower-cased text)
                let streq = format!(
                    "{}{}{}{}{}",
                    li.as_ref().map_or(2, |v| (*v == s) as u8),
                    s.parse::<Language>().map_or(2, |v| (v == s) as u8),
                    s.parse::<Script>().map_or(2, |v| (v == s) as u8),
                    s.parse::<Region>().map_or(2, |v| (v == s) as u8),
                    s.parse::<Variant>().map_or(2, |v| (v == s) as u8)
                );
                let raw = match s.parse::<Language>() {
                    Ok(parsed) => {
                        let mut le = [0u8; 8];
                        for (i, c) in s.bytes().enumerate() {
                            le[i] = c.to_ascii_lowercase();
                        }
                        // sound: the bytes are a valid (lower-case ASCII, zero-padded) subtag text
                        let l = unsafe { Language::from_raw_unchecked(u64::from_le_bytes(le)) };
                        let back: Option<u64> = l.into();
                        format!("{}/{}/{}/{:?}/{}/{:?}", l.as_str(), l.is_empty(), l == parsed, l.cmp(&parsed), l.matches(parsed, true, false), back)
                    }
                    Err(_) => "-".into(),
                };
                // the integer forms of the other subtag types and of the parsed identifier's variants
                let ints = format!(
                    "{:?}/{:?}/{:?}/{:?}",
                    s.parse::<Script>().ok().map(u32::from),
                    s.parse::<Region>().ok().map(u32::from),
                    s.parse::<Variant>().ok().map(u64::from),
                    li.as_ref().ok().map(|v| v.variants().map(|x| u64::from(*x)).collect::<Vec<u64>>())
                );
                format!(
                    "{}|{}|{}|{}|{}|{}|{}|{}|streq={streq}|raw={raw}|ints={ints}",
                    show(s.parse::<Locale>().map(|v| v.to_string()).map_err(|e| format!("{e:?}"))),
                    show(s.parse::<LanguageIdentifier>().map(|v| v.to_string()).map_err(|e| format!("{e:?}"))),
                    show(s.parse::<unic_locale::extensions::ExtensionsMap>().map(|v| v.to_string()).map_err(|e| format!("{e:?}"))),
                    show(s.parse::<Language>().map(|v| v.to_string()).map_err(|e| format!("{e:?}"))),
                    show(<Language as std::convert::TryFrom<Option<&str>>>::try_from(Some(s)).map(|v| v.to_string()).map_err(|e| format!("{e:?}"))),
                    show(s.parse::<Script>().map(|v| v.to_string()).map_err(|e| format!("{e:?}"))),
                    show(s.parse::<Region>().map(|v| v.to_string()).map_err(|e| format!("{e:?}"))),
                    show(s.parse::<Variant>().map(|v| v.to_string()).map_err(|e| format!("{e:?}"))),
                )
            }
            Err(_) => {
                use unic_locale::subtags::{Language, Region, Script, Variant};
                format!(
                    "bytes:{}{}{}{}{}",
                    unic_locale::extensions::ExtensionsMap::from_bytes(b).is_ok() as u8,
                    Language::from_bytes(b).is_ok() as u8,
                    Script::from_bytes(b).is_ok() as u8,
                    Region::from_bytes(b).is_ok() as u8,
                    Variant::from_bytes(b).is_ok() as u8
                )
            }
        };
        format!("L={ls} LI={lis} canonL={c1:?} canonLI={c2:?} routes={routes}")
    });
    match r {
        Ok(s) => s,
        Err(p) => format!("PANIC {}", panic_sig(&p)),
    }
}

fn nontrivial_bytes(b: &[u8]) -> bool {
    model::split(b).len() >= 2
}

fn dir_line(li: &LanguageIdentifier) -> String {
    format!("{:?}", li.character_direction())
}

pub struct Plan {
    pub seed: u64,
    pub n_loc_alpha: u64,
    pub n_full: u64,
    pub n_b: u64,
    pub n_c: u64,
    pub n_d: u64,
    pub pool: u64,
    pub n_f: u64,
}

impl Plan {
    pub fn new(cfg: &Cfg) -> Plan {
        let la = gen::locale_alphabet().len();
        let fa = gen::full_alphabet().len();
        Plan {
            seed: cfg.seed,
            n_loc_alpha: gen::pow(la, 1) + gen::pow(la, 2) + gen::pow(la, 3),
            n_full: gen::pow(fa, 1) + gen::pow(fa, 2),
            n_b: cfg.pick(60_000, 600_000),
            n_c: cfg.pick(60_000, 600_000),
            n_d: cfg.pick(40_000, 400_000),
            pool: cfg.pick(160, 400),
            n_f: cfg.pick(4_000, 60_000),
        }
    }
}

fn nth_of(alpha: &[Vec<u8>], mut idx: u64, prefix: &[u8]) -> Vec<u8> {
    let mut depth = 1u32;
    loop {
        let n = gen::pow(alpha.len(), depth);
        if idx < n {
            break;
        }
        idx -= n;
        depth += 1;
    }
    let mut seq = vec![];
    gen::nth_seq(alpha, depth, idx, b'-', &mut seq);
    let mut out = prefix.to_vec();
    out.extend_from_slice(&seq);
    out
}

/// the item behind a transcript line: (section, index) -> input description + line text
pub struct Corpus {
    slips: Vec<Vec<u8>>,
    plan: Plan,
    loc_alpha: Vec<Vec<u8>>,
    full_alpha: Vec<Vec<u8>>,
    pool: Vec<Locale>,
    cldr: Vec<String>,
}

impl Corpus {
    pub fn new(cfg: &Cfg) -> Corpus {
        let plan = Plan::new(cfg);
        let mut pool = vec![];
        let strat = gen::s_ast();
        let ph = salt("c20-pool");
        let mut i = 0u64;
        while (pool.len() as u64) < plan.pool && i < plan.pool * 20 {
            if let Some(a) = gen_case(&strat, plan.seed, ph, i) {
                // small ids so that equal / matching pairs occur
                let mut a = a;
                if i % 3 != 0 {
                    a.id.lang = ["en", "fr", "und"][(i % 3) as usize].to_string();
                    a.id.variants.truncate(1);
                    a.id.script = a.id.script.map(|_| "Latn".to_string());
                    a.id.region = a.id.region.map(|_| if i % 2 == 0 { "US".to_string() } else { "GB".to_string() });
                    if i % 4 == 0 {
                        a.private.clear();
                    }
                }
                if let Ok(Ok(l)) = guard(|| Locale::from_bytes(&a.render())) {
                    pool.push(l);
                }
            }
            i += 1;
        }
        let c = gen::corpus(&cfg.repo);
        let mut cldr: Vec<String> = c.locale_names.iter().chain(c.likely_keys.iter()).cloned().collect();
        cldr.sort();
        cldr.dedup();
        let bases: Vec<&str> = crate::props::spaces::SLIP_BASES_LANGID.iter().chain(crate::props::spaces::SLIP_BASES_LOCALE.iter()).cloned().chain(["ko-KR", "sk", "is-IS", "kk-Cyrl-KZ"]).collect();
        let slips = crate::props::spaces::sanitisation_slips(&bases);
        Corpus { slips, plan, loc_alpha: gen::locale_alphabet(), full_alpha: gen::full_alphabet(), pool, cldr }
    }

    pub fn sections(&self) -> Vec<(char, u64)> {
        let p = self.pool.len() as u64;
        vec![('A', self.plan.n_loc_alpha + self.plan.n_full + self.slips.len() as u64), ('B', self.plan.n_b), ('C', self.plan.n_c), ('D', self.plan.n_d), ('E', p * p), ('F', self.plan.n_f), ('G', self.plan.n_b + self.plan.n_d + self.cldr.len() as u64)]
    }

    fn bytes_of(&self, sec: char, idx: u64) -> Option<Vec<u8>> {
        match sec {
            'A' => Some(if idx < self.plan.n_loc_alpha {
                nth_of(&self.loc_alpha, idx, b"en-")
            } else if idx < self.plan.n_loc_alpha + self.plan.n_full {
                nth_of(&self.full_alpha, idx - self.plan.n_loc_alpha, b"")
            } else {
                self.slips[(idx - self.plan.n_loc_alpha - self.plan.n_full) as usize].clone()
            }),
            'B' => gen_case(&gen::s_ast(), self.plan.seed, salt("c20-B"), idx).map(|a| a.render()),
            'C' => gen_case(&gen::s_near_miss(), self.plan.seed, salt("c20-C"), idx),
            'D' => {
                if idx % 8 == 7 {
                    gen_case(&gen::s_langid_long_bytes(), self.plan.seed, salt("c20-D"), idx)
                } else if idx % 16 == 6 {
                    gen_case(&gen::s_locale_long_bytes(), self.plan.seed, salt("c20-D"), idx)
                } else if idx % 2 == 0 {
                    gen_case(&gen::s_langid_bytes(), self.plan.seed, salt("c20-D"), idx)
                } else {
                    gen_case(&gen::s_near_miss_langid(), self.plan.seed, salt("c20-D"), idx)
                }
            }
            _ => None,
        }
    }

    /// (nontrivial, line)
    pub fn line(&self, sec: char, idx: u64) -> (bool, String) {
        match sec {
            'A' | 'B' | 'C' | 'D' => match self.bytes_of(sec, idx) {
                Some(b) => (nontrivial_bytes(&b), format!("{} {}", hex(&b), parse_line(&b))),
                None => (false, "-".into()),
            },
            'E' => {
                let n = self.pool.len() as u64;
                let (a, b) = (&self.pool[(idx / n) as usize], &self.pool[(idx % n) as usize]);
                let r = guard(|| {
                    let mut s = format!("{a} | {b} : eq={} cmp={:?} heq={} ideq={} idcmp={:?}", a == b, a.cmp(b), h(a) == h(b), a.id == b.id, a.id.cmp(&b.id));
                    for (ra, rb) in [(false, false), (true, false), (false, true), (true, true)] {
                        s.push_str(&format!(" m{}{}={}/{}/{}", ra as u8, rb as u8, a.matches(b, ra, rb), a.id.matches(&b.id, ra, rb), a.id.matches(b, ra, rb)));
                    }
                    s.push_str(&format!(" streq={}", a.id == b.id.to_string().as_str()));
                    s
                });
                (idx / n != idx % n, r.unwrap_or_else(|p| format!("PANIC {}", panic_sig(&p))))
            }
            'F' => {
                let Some((start, opsv)) = gen_case(&crate::props::c10::s_history(), self.plan.seed, salt("c20-F"), idx) else { return (false, "-".into()) };
                let opsv: Vec<Op> = opsv.into_iter().filter(|o| !matches!(o, Op::Maximize | Op::Minimize)).collect();
                let r = guard(|| {
                    let mut loc = if start.is_empty() {
                        Locale::default()
                    } else {
                        match Locale::from_bytes(&start) {
                            Ok(l) => l,
                            Err(e) => return format!("start {} rejected: {e:?}", hex(&start)),
                        }
                    };
                    let mut s = format!("start={loc}");
                    for op in &opsv {
                        let out = ops::apply_lib(&mut loc, op);
                        s.push_str(&format!(" ; {}->{out:?} => {loc} #{:016x}", ops::op_name(op), h(&loc)));
                    }
                    // the getters as iterators, driven past their end (a feature-gated iterator type
                    // of its own shows in these numbers or as a PANIC line)
                    fn ad<I: ExactSizeIterator>(mk: impl Fn() -> I) -> String {
                        let n = mk().len();
                        let mut a = mk();
                        let _ = a.nth(n + 2);
                        let mut b = mk();
                        let _ = b.nth(n / 2);
                        let mut c = mk().skip(n + 1);
                        let _ = c.next();
                        format!("{n}/{}/{:?}/{}/{}/{}/{}", a.len(), a.size_hint(), a.next().is_some(), b.len(), c.len(), mk().count())
                    }
                    let e = &loc.extensions;
                    s.push_str(&format!(" ; iter v={} a={} k={} t={} p={}", ad(|| loc.id.variants()), ad(|| e.unicode.attributes()), ad(|| e.unicode.keyword_keys()), ad(|| e.transform.tfield_keys()), ad(|| e.private.tags())));
                    s
                });
                (opsv.iter().any(ops::is_mutation), format!("{} {}", ops::history_case(&start, &opsv), r.unwrap_or_else(|p| format!("PANIC {}", panic_sig(&p)))))
            }
            'G' => {
                let (b, tag) = if idx < self.plan.n_b {
                    (self.bytes_of('B', idx), "B")
                } else if idx < self.plan.n_b + self.plan.n_d {
                    (self.bytes_of('D', idx - self.plan.n_b), "D")
                } else {
                    (Some(self.cldr[(idx - self.plan.n_b - self.plan.n_d) as usize].as_bytes().to_vec()), "CLDR")
                };
                let Some(b) = b else { return (false, "-".into()) };
                let r = guard(|| match Locale::from_bytes(&b) {
                    Ok(l) => format!("{} {}", l.id, dir_line(&l.id)),
                    Err(_) => "- -".to_string(),
                });
                (tag == "CLDR" || nontrivial_bytes(&b), format!("{tag} {}", r.unwrap_or_else(|p| format!("PANIC {}", panic_sig(&p)))))
            }
            _ => (false, "-".into()),
        }
    }
}

/// child / self mode: write the transcript of this build to `path`
pub fn transcript_mode(cfg: &Cfg, path: &str) -> i32 {
    let c = Corpus::new(cfg);
    let Ok(f) = std::fs::File::create(path) else {
        eprintln!("cannot create {path}");
        return 2;
    };
    let mut w = std::io::BufWriter::with_capacity(1 << 20, f);
    let _ = writeln!(w, "# features={} seed={} tier={}", features(), cfg.seed, cfg.tier_name());
    // the compile probe (props/c20_probe.rs): that it compiled in this build is the point; its result is one more line
    #[cfg(feature = "probe")]
    let _ = writeln!(w, "P 0 T {}", crate::props::c20_probe::probe());
    for (sec, n) in c.sections() {
        let chunk = 1u64 << 14;
        let mut lo = 0;
        while lo < n {
            let hi = (lo + chunk * 16).min(n);
            let lines: Vec<(bool, String)> = (lo..hi).into_par_iter().map(|i| c.line(sec, i)).collect();
            for (k, (nt, l)) in lines.iter().enumerate() {
                let _ = writeln!(w, "{sec} {} {} {}", lo + k as u64, if *nt { 'N' } else { 'T' }, l);
            }
            lo = hi;
        }
    }
    if w.flush().is_err() {
        return 2;
    }
    0
}

fn item_case(sec: char, idx: u64, line: &str, cfg: &Cfg, a: &str, b: &str) -> Value {
    json!({"kind": "transcript-line", "section": sec.to_string(), "index": idx, "seed": cfg.seed, "tier": cfg.tier_name(), "builds": [a, b], "reference_line": line.chars().take(600).collect::<String>()})
}

fn bins() -> Vec<(String, String)> {
    // VERIF_C20_BINS = "name=path;name=path"
    std::env::var("VERIF_C20_BINS")
        .unwrap_or_default()
        .split(';')
        .filter_map(|kv| kv.split_once('=').map(|(a, b)| (a.to_string(), b.to_string())))
        .collect()
}

/// feature variants of the harness that did not compile although the errors sit in the
/// feature-independent compile probe only (decided by ./check): (name, features, build log)
fn broken_builds() -> Vec<(String, String, String)> {
    std::env::var("VERIF_C20_BROKEN")
        .unwrap_or_default()
        .split(';')
        .filter_map(|e| {
            let p: Vec<&str> = e.split('|').collect();
            if p.len() == 3 {
                Some((p[0].to_string(), p[1].to_string(), p[2].to_string()))
            } else {
                None
            }
        })
        .collect()
}

fn report_broken(st: &mut Stats) {
    for (name, feats, log) in broken_builds() {
        let text = std::fs::read_to_string(&log).unwrap_or_default();
        let first: String = text.lines().filter(|l| l.starts_with("error")).take(3).collect::<Vec<_>>().join(" / ");
        st.eval();
        st.fail(
            format!("feature-set-breaks-compilation-of-feature-independent-code:{feats}"),
            json!({"kind": "feature-build", "build": name, "features": feats}),
            1,
            format!("src/props/c20_probe.rs (no cfg(feature) code, feature-less API only) compiles in other builds but not with features [{feats}]: {first}"),
        );
    }
}

fn direction_tolerated(layout: &Layout, la: &str, lb: &str, fa: &str, fb: &str) -> bool {
    // line: "<tag> <id> <dir>"
    let likely_differs = fa.contains("likelysubtags") != fb.contains("likelysubtags");
    if !likely_differs {
        return false;
    }
    let (ta, tb): (Vec<&str>, Vec<&str>) = (la.split(' ').collect(), lb.split(' ').collect());
    if ta.len() != 3 || tb.len() != 3 || ta[0] != tb[0] || ta[1] != tb[1] {
        return false;
    }
    let id = ta[1];
    let toks: Vec<&str> = id.split('-').collect();
    let has_script = toks.iter().skip(1).any(|t| t.len() == 4 && t.bytes().all(|b| b.is_ascii_alphabetic()) && t.as_bytes()[0].is_ascii_uppercase());
    let _ = layout;
    !has_script
}

pub fn compare(cfg: &Cfg, only: Option<(char, u64)>) -> Stats {
    let mut st = Stats::new();
    let layout = match Layout::load(&cfg.repo) {
        Ok(l) => l,
        Err(e) => {
            st.oracle_error(format!("cannot read the layout data: {e}"));
            return st;
        }
    };
    let others = bins();
    report_broken(&mut st);
    let lenient = !broken_builds().is_empty();
    if others.len() < 3 && !lenient {
        st.oracle_error(format!("VERIF_C20_BINS names only {} other builds (at least 3 feature sets besides the main build are needed)", others.len()));
        return st;
    }
    let dir = cfg.verif.join("target").join("c20");
    let _ = std::fs::create_dir_all(&dir);
    let tag = if only.is_some() { format!("replay-{}", std::process::id()) } else { "run".to_string() };
    let own = dir.join(format!("{tag}-main.txt"));
    // children first (in parallel threads), own transcript meanwhile
    let handles: Vec<_> = others
        .iter()
        .map(|(name, bin)| {
            let out = dir.join(format!("{tag}-{name}.txt"));
            let (bin, seed, tier, name) = (bin.clone(), cfg.seed, cfg.tier_name(), name.clone());
            std::thread::spawn(move || {
                let r = std::process::Command::new(&bin).args(["C20", "--transcript", tier, &out.display().to_string()]).env("VERIF_SEED", (seed as i64).to_string()).output();
                match r {
                    Ok(o) if o.status.success() => Ok((name, out)),
                    Ok(o) => Err(format!("build {name} ({bin}) ended with {:?}: {}", o.status.code(), String::from_utf8_lossy(&o.stderr).chars().take(300).collect::<String>())),
                    Err(e) => Err(format!("cannot run {bin}: {e}")),
                }
            })
        })
        .collect();
    if transcript_mode(cfg, &own.display().to_string()) != 0 {
        st.oracle_error("cannot write the main build's transcript".into());
    }
    let mut files: Vec<(String, PathBuf)> = vec![];
    for hd in handles {
        match hd.join() {
            Ok(Ok(x)) => files.push(x),
            Ok(Err(e)) => st.oracle_error(e),
            Err(_) => st.oracle_error("transcript thread panicked".into()),
        }
    }
    if !st.oracle_errors.is_empty() {
        return st;
    }
    // lock-step comparison
    let open = |p: &PathBuf| std::fs::File::open(p).map(|f| BufReader::with_capacity(1 << 20, f).lines());
    let Ok(mut main_it) = open(&own) else {
        st.oracle_error("cannot reopen the main transcript".into());
        return st;
    };
    let mut its = vec![];
    for (n, p) in &files {
        match open(p) {
            Ok(it) => its.push((n.clone(), it, String::new())),
            Err(e) => {
                st.oracle_error(format!("{}: {e}", p.display()));
                return st;
            }
        }
    }
    let main_feat = match main_it.next() {
        Some(Ok(l)) => l,
        _ => String::new(),
    };
    let mut feats = vec![];
    for (n, it, _) in its.iter_mut() {
        match it.next() {
            Some(Ok(l)) => feats.push(l.split(' ').find_map(|t| t.strip_prefix("features=")).unwrap_or("").to_string()),
            _ => {
                st.oracle_error(format!("transcript of build {n} is empty"));
                return st;
            }
        }
    }
    let main_features = main_feat.split(' ').find_map(|t| t.strip_prefix("features=")).unwrap_or("").to_string();
    {
        let mut all: Vec<&String> = feats.iter().collect();
        all.push(&main_features);
        let distinct: std::collections::BTreeSet<&String> = all.iter().cloned().collect();
        if distinct.len() != all.len() {
            st.oracle_error(format!("two builds report the same feature set: {all:?}"));
            return st;
        }
        if !lenient && (!all.iter().any(|f| !f.contains("likelysubtags")) || !all.iter().any(|f| f.contains("macros")) || !all.iter().any(|f| *f == "none")) {
            st.oracle_error(format!("the feature sets {all:?} do not cover none / without likelysubtags / with macros"));
            return st;
        }
    }
    let mut tolerated = 0u64;
    let main_likely = main_features.contains("likelysubtags");
    for line in main_it {
        let Ok(line) = line else { break };
        let mut parts = line.splitn(4, ' ');
        let sec = parts.next().and_then(|s| s.chars().next()).unwrap_or('?');
        let idx: u64 = parts.next().and_then(|s| s.parse().ok()).unwrap_or(0);
        let nt = parts.next() == Some("N");
        let body = parts.next().unwrap_or("");
        let wanted = only.map_or(true, |(s, i)| s == sec && i == idx);
        // direction lines: first line seen in the group of builds with / without likelysubtags
        let mut group_ref: [Option<(String, String)>; 2] = [None, None];
        if sec == 'G' {
            group_ref[main_likely as usize] = Some((main_features.clone(), body.to_string()));
        }
        for (k, (name, it, _)) in its.iter_mut().enumerate() {
            let other = match it.next() {
                Some(Ok(l)) => l,
                _ => {
                    st.oracle_error(format!("transcript of build {name} is shorter than the main one"));
                    return st;
                }
            };
            if !wanted {
                continue;
            }
            st.eval();
            if sec == 'G' {
                // builds that agree on likelysubtags must agree on every direction, whatever
                // else is switched on (a facade feature that drags likelysubtags in is seen here)
                let obody = other.splitn(4, ' ').nth(3).unwrap_or("").to_string();
                let g = feats[k].contains("likelysubtags") as usize;
                match &group_ref[g] {
                    None => group_ref[g] = Some((feats[k].clone(), obody)),
                    Some((rf, rb)) if *rb != obody => {
                        st.fail("character_direction-differs-between-builds-with-the-same-likelysubtags-setting", item_case(sec, idx, &line, cfg, rf, &feats[k]), 10, format!("features [{rf}]: {rb} | features [{}]: {obody}", feats[k]));
                    }
                    _ => {}
                }
            }
            if other == line {
                continue;
            }
            let obody = other.splitn(4, ' ').nth(3).unwrap_or("");
            if sec == 'G' {
                if direction_tolerated(&layout, body, obody, &main_features, &feats[k]) {
                    tolerated += 1;
                    continue;
                }
                st.fail("character_direction-differs-beyond-the-documented-refinement", item_case(sec, idx, &line, cfg, &main_features, &feats[k]), 10, format!("features [{main_features}]: {body} | features [{}]: {obody}", feats[k]));
            } else {
                let what = match sec {
                    'A' | 'B' | 'C' | 'D' => "parsing-or-serialising",
                    'E' => "comparing-or-matching",
                    'F' => "mutating",
                    _ => "other",
                };
                st.fail(format!("feature-set-changes-{what}"), item_case(sec, idx, &line, cfg, &main_features, &feats[k]), 10, format!("features [{main_features}]: {} | features [{}]: {}", body.chars().take(400).collect::<String>(), feats[k], obody.chars().take(400).collect::<String>()));
            }
        }
        if wanted {
            st.eval();
            st.class(&format!("section {sec}"));
            if nt {
                let hsh = hash_str(&line);
                st.nontrivial(hsh, || json!({"kind": "transcript-line", "section": sec.to_string(), "index": idx, "line": line.chars().take(300).collect::<String>()}));
            }
        }
    }
    st.class_n("direction lines differing within the documented refinement (tolerated)", tolerated);
    let mut all_feats = feats.clone();
    all_feats.push(main_features);
    st.extra.insert("feature_sets_compared".into(), json!(all_feats));
    st.subspace("section A: exhaustive token sequences (locale alphabet 1-3 subtags after 'en-', full alphabet 1-2 subtags)", Plan::new(cfg).n_loc_alpha + Plan::new(cfg).n_full, true);
    // remove the transcripts (they are large and reproducible)
    let _ = std::fs::remove_file(&own);
    for (_, p) in &files {
        let _ = std::fs::remove_file(p);
    }
    st
}

pub fn run(cfg: &Cfg) -> Stats {
    compare(cfg, None)
}

pub fn replay(case: &Value, st: &mut Stats) {
    if case["kind"] == json!("feature-build") {
        // ./check has rebuilt the variants; the build in question is reported again if it still fails
        let mut s = Stats::new();
        report_broken(&mut s);
        let want = case["features"].as_str().unwrap_or("");
        for (k, f) in s.failures {
            if k.ends_with(&format!(":{want}")) {
                st.failures.insert(k.clone(), f);
                *st.fail_counts.entry(k).or_insert(0) += 1;
                st.fail_total += 1;
            }
        }
        return;
    }
    let (Some(sec), Some(idx)) = (case["section"].as_str().and_then(|s| s.chars().next()), case["index"].as_u64()) else { return };
    let mut cfg = crate::props::triples::replay_cfg("C20");
    cfg.seed = case["seed"].as_u64().or_else(|| case["seed"].as_i64().map(|v| v as u64)).unwrap_or(0);
    cfg.tier = if case["tier"] == json!("thorough") { Tier::Thorough } else { Tier::Quick };
    let s = compare(&cfg, Some((sec, idx)));
    let old = std::mem::take(st);
    *st = old.merge(s);
}
