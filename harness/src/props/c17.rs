//! C17 — decomposition and raw-representation round trips.

use crate::run::*;
use crate::values::{self, case_size};
use serde_json::{json, Value};
use std::str::FromStr;
use unic_locale::extensions::ExtensionsMap;
use unic_locale::subtags::{Language, Region, Script, Variant};
use unic_locale::{LanguageIdentifier, Locale};

pub const RULE: &str = "Domain: the reachable values of C04 (parsed / from_parts / mutation histories); every sequence of length 1-5 over four variant subtags (all permutations and duplications) for from_parts vs parsing the joined string; every valid subtag skeleton: all alpha{2}, alpha{3} languages, alpha{2} and digit{3} regions, alpha{4} scripts (exhaustive), 5-8 letter languages and 4-8 character variants over a reduced alphabet plus proptest-generated ones. Oracle: from_parts(into_parts(x)) == x (Locale: extension string re-parsed as ExtensionsMap); from_parts(perm(variants)) == parse(joined); T::from_raw_unchecked(Into::<int>::into(t)) == t with as_str intact (sound: the integer comes from a valid subtag); the integer decodes (little-endian, zero padded) to the subtag's text, hence distinct subtags have distinct integers. Non-trivial = value with variants or extensions; every subtag of the pools counts. Distinctness by construction for enumerations, hash set otherwise.";

fn decode64(v: u64) -> Vec<u8> {
    v.to_le_bytes().iter().cloned().take_while(|b| *b != 0).collect()
}
fn decode32(v: u32) -> Vec<u8> {
    v.to_le_bytes().iter().cloned().take_while(|b| *b != 0).collect()
}

pub fn raw_language(l: Language, case: &dyn Fn() -> Value, st: &mut Stats) {
    // a panic inside the conversions (an overflowing shift in from_raw_unchecked ...) is a failure of this case
    netted(st, || case(), 1, |st| raw_language_inner(l, case, st));
}
fn raw_language_inner(l: Language, case: &dyn Fn() -> Value, st: &mut Stats) {
    let v: Option<u64> = l.into();
    let v2: Option<u64> = (&l).into();
    if v != v2 {
        st.fail("raw:language:into-ref-differs", case(), 1, "From<Language> and From<&Language> differ");
    }
    match v {
        None => {
            if !l.is_empty() {
                st.fail("raw:language:none-for-nonempty", case(), 1, format!("{:?}", l.as_str()));
            }
        }
        Some(x) => {
            if l.is_empty() {
                st.fail("raw:language:some-for-und", case(), 1, "und gives Some");
            }
            if decode64(x) != l.as_str().as_bytes() {
                st.fail("raw:language:integer-does-not-decode-to-text", case(), 1, format!("{x} vs {:?}", l.as_str()));
            }
            let back = unsafe { Language::from_raw_unchecked(x) };
            if back != l || back.as_str() != l.as_str() {
                st.fail("raw:language:roundtrip", case(), 1, format!("{:?} -> {x} -> {:?}", l.as_str(), back.as_str()));
            }
        }
    }
}
pub fn raw_script(s: Script, case: &dyn Fn() -> Value, st: &mut Stats) {
    // a panic inside the conversions (an overflowing shift in from_raw_unchecked ...) is a failure of this case
    netted(st, || case(), 1, |st| raw_script_inner(s, case, st));
}
fn raw_script_inner(s: Script, case: &dyn Fn() -> Value, st: &mut Stats) {
    let x: u32 = s.into();
    if decode32(x) != s.as_str().as_bytes() {
        st.fail("raw:script:integer-does-not-decode-to-text", case(), 1, format!("{x} vs {:?}", s.as_str()));
    }
    let back = unsafe { Script::from_raw_unchecked(x) };
    if back != s || back.as_str() != s.as_str() {
        st.fail("raw:script:roundtrip", case(), 1, format!("{:?} -> {x} -> {:?}", s.as_str(), back.as_str()));
    }
}
pub fn raw_region(s: Region, case: &dyn Fn() -> Value, st: &mut Stats) {
    // a panic inside the conversions (an overflowing shift in from_raw_unchecked ...) is a failure of this case
    netted(st, || case(), 1, |st| raw_region_inner(s, case, st));
}
fn raw_region_inner(s: Region, case: &dyn Fn() -> Value, st: &mut Stats) {
    let x: u32 = s.into();
    if decode32(x) != s.as_str().as_bytes() {
        st.fail("raw:region:integer-does-not-decode-to-text", case(), 1, format!("{x} vs {:?}", s.as_str()));
    }
    let back = unsafe { Region::from_raw_unchecked(x) };
    if back != s || back.as_str() != s.as_str() {
        st.fail("raw:region:roundtrip", case(), 1, format!("{:?} -> {x} -> {:?}", s.as_str(), back.as_str()));
    }
}
pub fn raw_variant(s: Variant, case: &dyn Fn() -> Value, st: &mut Stats) {
    // a panic inside the conversions (an overflowing shift in from_raw_unchecked ...) is a failure of this case
    netted(st, || case(), 1, |st| raw_variant_inner(s, case, st));
}
fn raw_variant_inner(s: Variant, case: &dyn Fn() -> Value, st: &mut Stats) {
    let x: u64 = s.into();
    let x2: u64 = (&s).into();
    if x != x2 {
        st.fail("raw:variant:into-ref-differs", case(), 1, "From<Variant> and From<&Variant> differ");
    }
    if decode64(x) != s.as_str().as_bytes() {
        st.fail("raw:variant:integer-does-not-decode-to-text", case(), 1, format!("{x} vs {:?}", s.as_str()));
    }
    let back = unsafe { Variant::from_raw_unchecked(x) };
    if back != s || back.as_str() != s.as_str() {
        st.fail("raw:variant:roundtrip", case(), 1, format!("{:?} -> {x} -> {:?}", s.as_str(), back.as_str()));
    }
}

pub fn check_value(loc: &Locale, case: &Value, st: &mut Stats, mode: Count) {
    netted(st, || case.clone(), crate::values::case_size(case), |st| check_value_inner(loc, case, st, mode));
}

thread_local! {
    static REUSED: std::cell::RefCell<String> = std::cell::RefCell::new(String::with_capacity(4096));
}

fn check_value_inner(loc: &Locale, case: &Value, st: &mut Stats, mode: Count) {
    st.eval();
    let size = case_size(case);
    if loc.id.variants().len() > 0 || !loc.extensions.is_empty() {
        st.count(mode, hash_str(&case.to_string()), || case.clone());
    }
    // LanguageIdentifier decomposition
    let (l, s, r, v) = loc.id.clone().into_parts();
    if l != loc.id.language || s != loc.id.script || r != loc.id.region || v.iter().collect::<Vec<_>>() != loc.id.variants().collect::<Vec<_>>() {
        st.fail("langid:into_parts-fields", case.clone(), size, "into_parts does not return the public fields");
    }
    let again = LanguageIdentifier::from_parts(l, s, r, &v);
    if again != loc.id {
        st.fail("langid:from_parts(into_parts)", case.clone(), size, format!("{:?} -> {:?}", loc.id.to_string(), again.to_string()));
    }
    let raw = LanguageIdentifier::from_raw_parts_unchecked(l, s, r, if v.is_empty() { None } else { Some(v.clone().into_boxed_slice()) });
    if raw != loc.id || raw.to_string() != loc.id.to_string() {
        st.fail("langid:from_raw_parts_unchecked", case.clone(), size, format!("{:?} -> {:?}", loc.id.to_string(), raw.to_string()));
    }
    // Locale decomposition
    let (l2, s2, r2, v2, ext) = loc.clone().into_parts();
    if l2 != l || s2 != s || r2 != r || v2 != v || ext != loc.extensions.to_string() {
        st.fail("locale:into_parts-fields", case.clone(), size, format!("ext string {ext:?}"));
    }
    // the same text once more from a buffer that every case on this thread re-uses (same address, often
    // the same length, different text): a parse memo keyed on the identity of the input would answer
    // with the previous case's map
    let reused = REUSED.with(|b| {
        let mut b = b.borrow_mut();
        b.clear();
        b.push_str(&ext);
        guard(|| ExtensionsMap::from_str(&b))
    });
    match &reused {
        Ok(Ok(e2)) if e2.to_string() == ext && *e2 == loc.extensions => {}
        other => st.fail("locale:extension-string-from-reused-buffer", case.clone(), size, format!("{ext:?} -> {:?}", other.as_ref().map(|r| r.as_ref().map(|e| e.to_string()).map_err(|e| format!("{e:?}"))).map_err(|p| format!("{p:?}")))),
    }
    match guard(|| ExtensionsMap::from_str(&ext)) {
        Ok(Ok(e)) => {
            let again = Locale::from_parts(l2, s2, r2, &v2, Some(e));
            if again != *loc {
                st.fail("locale:from_parts(into_parts)", case.clone(), size, format!("{:?} -> {:?}", loc.to_string(), again.to_string()));
            }
        }
        other => st.fail("locale:extension-string-does-not-reparse", case.clone(), size, format!("{ext:?} -> {:?}", other.map(|r| r.map(|e| e.to_string())))),
    }
    // the unchecked Locale constructor with the decomposed parts (sound: the variants come from a
    // value, hence 'deduplicated and ordered', which is all its safety comment asks for)
    {
        let raw = unsafe { Locale::from_raw_parts_unchecked(l, s, r, if v.is_empty() { None } else { Some(v.clone().into_boxed_slice()) }, loc.extensions.clone()) };
        if raw != *loc || raw.to_string() != loc.to_string() {
            st.fail("locale:from_raw_parts_unchecked", case.clone(), size, format!("{:?} -> {:?}", loc.to_string(), raw.to_string()));
        }
    }
    if loc.extensions.is_empty() {
        let again = Locale::from_parts(l, s, r, &v, None);
        if again != *loc {
            st.fail("locale:from_parts(None)", case.clone(), size, "differs");
        }
    }
    // raw subtags
    let c = || case.clone();
    raw_language(l, &c, st);
    if let Some(s) = s {
        raw_script(s, &c, st);
    }
    if let Some(r) = r {
        raw_region(r, &c, st);
    }
    for x in &v {
        raw_variant(*x, &c, st);
    }
    // from_parts == parse(joined) for the parts route
    if values::case_route(case) == "parts" {
        if let Some(p) = values::parts_from_case(case) {
            let mut joined = p.lang.clone();
            for t in p.script.iter().chain(p.region.iter()).chain(p.variants.iter()) {
                joined.push('-');
                joined.push_str(t);
            }
            if let Some(e) = &p.ext {
                if !e.starts_with('-') && !e.starts_with('_') {
                    joined.push('-');
                }
                joined.push_str(e);
            }
            match guard(|| Locale::from_str(&joined)) {
                Ok(Ok(parsed)) if parsed == *loc => {}
                other => st.fail("from_parts!=parse(joined)", case.clone(), size, format!("parse({joined:?}) -> {:?}; from_parts prints {:?}", other.map(|r| r.map(|l| l.to_string())), loc.to_string())),
            }
        }
    }
}

fn pools(cfg: &Cfg, st: &mut Stats) {
    let az = |i: u64| (b'a' + (i % 26) as u8) as char;
    let case = |t: &str, k: &str| json!({"kind": "subtag", "type": k, "text": t});
    let mut n = 0u64;
    for i in 0..(676 + 17576) as u64 {
        let t: String = if i < 676 { [az(i / 26), az(i)].iter().collect() } else { let j = i - 676; [az(j / 676), az(j / 26), az(j)].iter().collect() };
        st.eval();
        n += 1;
        st.nontrivial_enum(hash_str(&t), || case(&t, "language"));
        if let Ok(l) = Language::from_str(&t) {
            raw_language(l, &|| case(&t, "language"), st);
        }
        if i < 676 {
            if let Ok(r) = Region::from_str(&t) {
                raw_region(r, &|| case(&t, "region"), st);
            }
        }
    }
    for i in 0..1000u32 {
        let t = format!("{i:03}");
        st.eval();
        n += 1;
        st.nontrivial_enum(hash_str(&t), || case(&t, "region"));
        if let Ok(r) = Region::from_str(&t) {
            raw_region(r, &|| case(&t, "region"), st);
        }
    }
    for i in 0..26u64.pow(4) {
        let t: String = [az(i / 17576), az(i / 676), az(i / 26), az(i)].iter().collect();
        st.eval();
        n += 1;
        st.nontrivial_enum(hash_str(&t), || case(&t, "script"));
        if let Ok(r) = Script::from_str(&t) {
            raw_script(r, &|| case(&t, "script"), st);
        }
    }
    // longer subtags over a reduced alphabet
    let al = b"azm09";
    for len in 4..=8u32 {
        let cnt = (al.len() as u64).pow(len).min(cfg.pick(80_000, 400_000));
        for i in 0..cnt {
            let mut k = i;
            let t: String = (0..len).map(|_| { let c = al[(k % 5) as usize] as char; k /= 5; c }).collect();
            st.eval();
            n += 1;
            let mut any = false;
            if let Ok(v) = Variant::from_str(&t) {
                raw_variant(v, &|| case(&t, "variant"), st);
                any = true;
            }
            if let Ok(l) = Language::from_str(&t) {
                raw_language(l, &|| case(&t, "language"), st);
                any = true;
            }
            if any {
                st.nontrivial_enum(hash_str(&t) ^ 7, || case(&t, "variant-or-language"));
            }
        }
    }
    st.subspace("subtag pools for the raw round trip (exhaustive skeletons + reduced alphabet)", n, true);
    // permutations / duplications of variant lists
    let vs = ["valencia", "1abc", "macos", "abcde"];
    let mut m = 0u64;
    for len in 1..=5u32 {
        for i in 0..4u64.pow(len) {
            let mut k = i;
            let list: Vec<&str> = (0..len).map(|_| { let v = vs[(k % 4) as usize]; k /= 4; v }).collect();
            st.eval();
            m += 1;
            let case = || json!({"kind": "parts", "language": "ca", "script": null, "region": "ES", "variants": list, "ext": null});
            st.nontrivial_enum(hash_str(&list.join("-")) ^ 99, case);
            let parsed: Vec<Variant> = list.iter().map(|v| v.parse().unwrap()).collect();
            let a = LanguageIdentifier::from_parts("ca".parse().unwrap(), None, Some("ES".parse().unwrap()), &parsed);
            let joined = format!("ca-ES-{}", list.join("-"));
            match LanguageIdentifier::from_str(&joined) {
                Ok(b) if a == b && a.to_string() == b.to_string() => {}
                other => st.fail("from_parts!=parse(joined):variants", case(), list.len(), format!("{joined:?}: {:?} vs {:?}", other.map(|l| l.to_string()), a.to_string())),
            }
            let mut c = LanguageIdentifier::from_parts("ca".parse().unwrap(), None, Some("ES".parse().unwrap()), &[]);
            c.set_variants(&parsed);
            if c != a {
                st.fail("set_variants!=from_parts", case(), list.len(), format!("{:?} vs {:?}", c.to_string(), a.to_string()));
            }
        }
    }
    st.subspace("every sequence of 1-5 variants over 4 variant subtags (permutations and duplications)", m, true);
}

pub fn run(cfg: &Cfg) -> Stats {
    let mut total = values::for_each_value(cfg, "c17", &check_value);
    pools(cfg, &mut total);
    total
}

pub fn replay(case: &Value, st: &mut Stats) {
    if case["kind"] == "subtag" {
        let t = case["text"].as_str().unwrap_or("");
        let c = || case.clone();
        if let Ok(l) = Language::from_str(t) {
            raw_language(l, &c, st);
        }
        if let Ok(l) = Script::from_str(t) {
            raw_script(l, &c, st);
        }
        if let Ok(l) = Region::from_str(t) {
            raw_region(l, &c, st);
        }
        if let Ok(l) = Variant::from_str(t) {
            raw_variant(l, &c, st);
        }
        return;
    }
    if let Some(loc) = values::value_from_case(case) {
        check_value(&loc, case, st, Count::Hash);
    }
}
