//! C13 — Locale is a drop-in superset of LanguageIdentifier.

use crate::model::{self, Zone};
use crate::props::spaces::{self};
use crate::run::*;
use crate::values::{self, case_size};
use serde_json::Value;
use unic_locale::extensions::ExtensionsMap;
use unic_locale::{LanguageIdentifier, Locale};

pub const RULE: &str = "Domain: clause 1 (every input LanguageIdentifier accepts): the whole C02 byte space (exhaustive token sequences up to 4 | 5 subtags, G2/G3/G4/G5) with both parsers run on the same input; clause 2 (id == LanguageIdentifier of the part before the first singleton): every well-formed input of the C03 locale space; conversions: the reachable values of C04. Differential between two entry points of the library; the reference model is used only to recognise well-formed locale strings. The value clauses run after Display writes into failing sinks on the same thread. Non-trivial = LanguageIdentifier-accepted input with >= 2 subtags, or a well-formed locale string with >= 1 extension, or a value with extensions. Distinctness: enumerations by construction, generated cases through a hash set.";

pub fn check_bytes(b: &[u8], st: &mut Stats, mode: Count) {
    netted(st, || bytes_case(b), b.len(), |st| check_bytes_inner(b, st, mode));
}

fn check_bytes_inner(b: &[u8], st: &mut Stats, mode: Count) {
    st.eval();
    let case = || bytes_case(b);
    let li = match guard(|| LanguageIdentifier::from_bytes(b)) {
        Ok(r) => r,
        Err(_) => return,
    };
    let lo = match guard(|| Locale::from_bytes(b)) {
        Ok(r) => r,
        Err(p) => {
            st.fail(panic_sig(&p), case(), b.len(), format!("Locale::from_bytes panicked: {p:?}"));
            return;
        }
    };
    // the FromStr routes of both types must agree with from_bytes on every input
    if let Ok(text) = std::str::from_utf8(b) {
        match guard(|| (text.parse::<LanguageIdentifier>(), text.parse::<Locale>())) {
            Err(p) => st.fail(format!("from_str:{}", panic_sig(&p)), case(), b.len(), format!("FromStr panicked: {p:?}")),
            Ok((a, c)) => {
                if a.as_ref().ok() != li.as_ref().ok() || a.is_ok() != li.is_ok() {
                    st.fail("langid-from_str-differs-from-from_bytes", case(), b.len(), format!("FromStr {:?} vs from_bytes {:?}", a.as_ref().map(|v| v.to_string()), li.as_ref().map(|v| v.to_string())));
                }
                if c.as_ref().ok() != lo.as_ref().ok() || c.is_ok() != lo.is_ok() {
                    st.fail("locale-from_str-differs-from-from_bytes", case(), b.len(), format!("FromStr {:?} vs from_bytes {:?}", c.as_ref().map(|v| v.to_string()), lo.as_ref().map(|v| v.to_string())));
                }
            }
        }
    }
    let toks = model::split(b);
    let mut nontrivial = false;
    if let Ok(li) = &li {
        if toks.len() >= 2 {
            nontrivial = true;
            st.class("langid-accepted>=2-subtags");
        }
        match &lo {
            Err(e) => st.fail("locale-rejects-langid-input", case(), b.len(), format!("LanguageIdentifier accepts ({}), Locale -> {e:?}", li.to_string())),
            Ok(loc) => {
                if loc.id != *li {
                    st.fail("id-differs", case(), b.len(), format!("Locale.id {:?} vs LanguageIdentifier {:?}", loc.id.to_string(), li.to_string()));
                }
                if loc.extensions != ExtensionsMap::default() || !loc.extensions.is_empty() {
                    st.fail("extensions-not-empty", case(), b.len(), format!("extensions {:?}", loc.extensions.to_string()));
                }
                if loc.to_string() != li.to_string() {
                    st.fail("to_string-differs", case(), b.len(), format!("{:?} vs {:?}", loc.to_string(), li.to_string()));
                }
            }
        }
    }
    // clause 2
    if let Zone::MustAccept(_, p) = model::ref_locale(b) {
        if p.n_ext > 0 {
            nontrivial = true;
            st.class("wellformed-locale-with-extension");
        }
        if let Ok(loc) = &lo {
            let cut = toks.iter().position(|t| t.len() == 1).unwrap_or(toks.len());
            let prefix: Vec<u8> = toks[..cut].join(&b'-');
            match guard(|| LanguageIdentifier::from_bytes(&prefix)) {
                Ok(Ok(pli)) => {
                    if pli != loc.id {
                        st.fail("prefix-id-differs", case(), b.len(), format!("Locale.id {:?} vs LanguageIdentifier(prefix) {:?}", loc.id.to_string(), pli.to_string()));
                    }
                }
                other => st.fail("prefix-rejected", case(), b.len(), format!("LanguageIdentifier::from_bytes({:?}) -> {other:?}", String::from_utf8_lossy(&prefix))),
            }
        }
    }
    if nontrivial {
        st.count(mode, hash_bytes(b), case);
    }
}

pub fn check_value(loc: &Locale, case: &Value, st: &mut Stats, mode: Count) {
    netted(st, || case.clone(), crate::values::case_size(case), |st| check_value_inner(loc, case, st, mode));
}

fn check_value_inner(loc: &Locale, case: &Value, st: &mut Stats, mode: Count) {
    st.eval();
    let size = case_size(case);
    if !loc.extensions.is_empty() {
        st.class("value-with-extensions");
        st.count(mode, hash_str(&case.to_string()), || case.clone());
    }
    // writes into failing sinks first: the renderings compared below must not depend on them
    let _ = guard(|| values::poison_display(loc, &loc.to_string()));
    let li = loc.id.clone();
    let up: Locale = Locale::from(li.clone());
    if up.id != li || up.extensions != ExtensionsMap::default() || !up.extensions.is_empty() || up.to_string() != li.to_string() {
        st.fail("from-langid", case.clone(), size, format!("Locale::from({:?}) prints {:?}", li.to_string(), up.to_string()));
    }
    let back: LanguageIdentifier = LanguageIdentifier::from(up);
    if back != li {
        st.fail("langid-locale-langid-not-identity", case.clone(), size, format!("{:?} -> {:?}", li.to_string(), back.to_string()));
    }
    // the same through a present-but-empty variant list (safe constructor
    // from_raw_parts_unchecked; an empty list is 'deduplicated and ordered'): the identity
    // must hold for that representation too
    if li.variants().len() == 0 {
        let twin = LanguageIdentifier::from_raw_parts_unchecked(li.language, li.script, li.region, Some(Box::new([])));
        let up2: Locale = Locale::from(twin.clone());
        let id_ok = up2.id == twin;
        let back2: LanguageIdentifier = LanguageIdentifier::from(up2);
        if !id_ok || back2 != twin {
            st.fail("langid-locale-langid-not-identity:present-but-empty-variants", case.clone(), size, format!("{:?} built with Some([]) does not survive LanguageIdentifier -> Locale -> LanguageIdentifier under ==", li.to_string()));
        }
    }
    let down: LanguageIdentifier = LanguageIdentifier::from(loc.clone());
    if down != loc.id {
        st.fail("into-langid-differs-from-id", case.clone(), size, format!("{:?} vs {:?}", down.to_string(), loc.id.to_string()));
    }
    if format!("{}{}", down, loc.extensions) != loc.to_string() {
        st.fail("locale-is-not-id-plus-extensions", case.clone(), size, format!("{:?}", loc.to_string()));
    }
    let r1: &LanguageIdentifier = loc.as_ref();
    let r2: &Locale = loc.as_ref();
    if *r1 != loc.id || r2 != loc {
        st.fail("as-ref", case.clone(), size, "AsRef disagrees");
    }
    // a LanguageIdentifier can be matched against a Locale directly (AsRef<LanguageIdentifier>)
    if !li.matches(loc, false, false) {
        st.fail("langid-matches-locale", case.clone(), size, "li.matches(&locale,false,false) is false for the locale's own id");
    }
}

pub fn run(cfg: &Cfg) -> Stats {
    let a = spaces::langid_space(cfg, "c13a", &check_bytes);
    let b = spaces::locale_space(cfg, "c13b", &check_bytes);
    let c = values::for_each_value(cfg, "c13c", &check_value);
    // the langid and locale byte spaces overlap; nt_enum of the second space could recount
    // members of the first. Conservative: keep the larger of the two enumerated counts.
    let mut t = Stats::new();
    let (a_enum, b_enum) = (a.nt_enum, b.nt_enum);
    t = t.merge(a).merge(b);
    t.nt_enum = a_enum.max(b_enum);
    t.merge(c)
}

pub fn replay(case: &Value, st: &mut Stats) {
    if case["kind"] == "bytes" {
        if let Some(b) = case_bytes(case) {
            check_bytes(&b, st, Count::Hash);
        }
    }
    if let Some(loc) = values::value_from_case(case) {
        check_value(&loc, case, st, Count::Hash);
    }
}
