//! C19 — the serde form is the canonical string and round-trips.
#![cfg(feature = "serde")]

use crate::gen;
use crate::model;
use crate::obs;
use crate::props::spaces::{ByteCheck, Driver};
use crate::run::*;
use crate::values;
use proptest::prelude::*;
use serde::de::IntoDeserializer;
use serde::Deserialize;
use serde_json::{json, Value};
use unic_locale::LanguageIdentifier;

pub const RULE: &str = "Domain: (a) LanguageIdentifier values reached by parsing, from_parts and mutation histories (the ids and tlangs of the C04 value pools); (b) input strings: every token sequence of 1-3 | 1-4 subtags over the 51-token language-id boundary alphabet (exhaustive), proptest well-formed ids with case/separator masks, 1-3-edit near misses, weighted raw bytes that are valid UTF-8, arbitrary Unicode strings, the CLDR corpus - each encoded as JSON three ways (serde_json's own escaping, every char as \\uXXXX with surrogate pairs, Value::String) and read through from_str, from_slice, from_reader, from_value, serde's in-memory str / String / Cow deserialisers and a hand-written one-string probe format that reports is_human_readable() = true and = false (visit_str / visit_borrowed_str / visit_string); every value and string is also processed right after a neighbour one character / subtag away (hidden state); (c) non-string documents from a recursive proptest strategy (null, bools, integers, floats, arrays, objects, a string nested in an array / object, and documents that spell a well-formed identifier as an array of byte values / code points / one-character strings / subtags), as text, as Value and through serde's primitive deserialisers, plus truncated / garbage JSON text. Oracle: to_string(&v) == '\"' + canonical string + '\"' (canonical string from the independent canonicaliser over the getters and from Display), to_value == Value::String(same), from_str(to_string(&v)) == v; for every string s each reader succeeds iff s.parse::<LanguageIdentifier>() succeeds (and iff the reference recogniser accepts), with == values; every non-string document is an Err, never a panic. Non-trivial = value with >= 2 subtags; string with >= 2 subtags whose first subtag is a language or that is accepted; every non-string document. Distinct by construction for enumerations, hash set otherwise.";

fn unicode_escape(s: &str) -> String {
    let mut out = String::from("\"");
    for u in s.encode_utf16() {
        out.push_str(&format!("\\u{u:04x}"));
    }
    out.push('"');
    out
}


// ------------------------------------------------------------------------------------------
// A second, hand-written serde data format ("probe"): one string, nothing else, with a
// configurable is_human_readable() answer. serde_json and serde's value deserialisers all
// report human-readable = true; compact binary formats report false, and the property
// quantifies over "the serde feature", not over serde_json.

pub type PErr = serde::de::value::Error;

pub struct ProbeSer {
    pub human: bool,
}

fn not_str<T>() -> Result<T, PErr> {
    Err(<PErr as serde::ser::Error>::custom("probe format: not a string"))
}

impl serde::Serializer for ProbeSer {
    type Ok = String;
    type Error = PErr;
    type SerializeSeq = serde::ser::Impossible<String, PErr>;
    type SerializeTuple = serde::ser::Impossible<String, PErr>;
    type SerializeTupleStruct = serde::ser::Impossible<String, PErr>;
    type SerializeTupleVariant = serde::ser::Impossible<String, PErr>;
    type SerializeMap = serde::ser::Impossible<String, PErr>;
    type SerializeStruct = serde::ser::Impossible<String, PErr>;
    type SerializeStructVariant = serde::ser::Impossible<String, PErr>;
    fn is_human_readable(&self) -> bool {
        self.human
    }
    fn serialize_str(self, v: &str) -> Result<String, PErr> {
        Ok(v.to_string())
    }
    fn serialize_bool(self, _: bool) -> Result<String, PErr> { not_str() }
    fn serialize_i8(self, _: i8) -> Result<String, PErr> { not_str() }
    fn serialize_i16(self, _: i16) -> Result<String, PErr> { not_str() }
    fn serialize_i32(self, _: i32) -> Result<String, PErr> { not_str() }
    fn serialize_i64(self, _: i64) -> Result<String, PErr> { not_str() }
    fn serialize_u8(self, _: u8) -> Result<String, PErr> { not_str() }
    fn serialize_u16(self, _: u16) -> Result<String, PErr> { not_str() }
    fn serialize_u32(self, _: u32) -> Result<String, PErr> { not_str() }
    fn serialize_u64(self, _: u64) -> Result<String, PErr> { not_str() }
    fn serialize_f32(self, _: f32) -> Result<String, PErr> { not_str() }
    fn serialize_f64(self, _: f64) -> Result<String, PErr> { not_str() }
    fn serialize_char(self, _: char) -> Result<String, PErr> { not_str() }
    fn serialize_bytes(self, _: &[u8]) -> Result<String, PErr> { not_str() }
    fn serialize_none(self) -> Result<String, PErr> { not_str() }
    fn serialize_some<T: ?Sized + serde::Serialize>(self, _: &T) -> Result<String, PErr> { not_str() }
    fn serialize_unit(self) -> Result<String, PErr> { not_str() }
    fn serialize_unit_struct(self, _: &'static str) -> Result<String, PErr> { not_str() }
    fn serialize_unit_variant(self, _: &'static str, _: u32, _: &'static str) -> Result<String, PErr> { not_str() }
    fn serialize_newtype_struct<T: ?Sized + serde::Serialize>(self, _: &'static str, _: &T) -> Result<String, PErr> { not_str() }
    fn serialize_newtype_variant<T: ?Sized + serde::Serialize>(self, _: &'static str, _: u32, _: &'static str, _: &T) -> Result<String, PErr> { not_str() }
    fn serialize_seq(self, _: Option<usize>) -> Result<Self::SerializeSeq, PErr> { not_str() }
    fn serialize_tuple(self, _: usize) -> Result<Self::SerializeTuple, PErr> { not_str() }
    fn serialize_tuple_struct(self, _: &'static str, _: usize) -> Result<Self::SerializeTupleStruct, PErr> { not_str() }
    fn serialize_tuple_variant(self, _: &'static str, _: u32, _: &'static str, _: usize) -> Result<Self::SerializeTupleVariant, PErr> { not_str() }
    fn serialize_map(self, _: Option<usize>) -> Result<Self::SerializeMap, PErr> { not_str() }
    fn serialize_struct(self, _: &'static str, _: usize) -> Result<Self::SerializeStruct, PErr> { not_str() }
    fn serialize_struct_variant(self, _: &'static str, _: u32, _: &'static str, _: usize) -> Result<Self::SerializeStructVariant, PErr> { not_str() }
}

/// hands one string to the visitor: mode 0 visit_str (transient), 1 visit_borrowed_str, 2 visit_string
pub struct ProbeDe<'de> {
    pub s: &'de str,
    pub human: bool,
    pub mode: u8,
}

impl<'de> serde::Deserializer<'de> for ProbeDe<'de> {
    type Error = PErr;
    fn is_human_readable(&self) -> bool {
        self.human
    }
    fn deserialize_any<V: serde::de::Visitor<'de>>(self, visitor: V) -> Result<V::Value, PErr> {
        match self.mode {
            0 => {
                let copy = self.s.to_string();
                visitor.visit_str(&copy)
            }
            1 => visitor.visit_borrowed_str(self.s),
            _ => visitor.visit_string(self.s.to_string()),
        }
    }
    serde::forward_to_deserialize_any! {
        bool i8 i16 i32 i64 i128 u8 u16 u32 u64 u128 f32 f64 char str string bytes byte_buf option unit
        unit_struct newtype_struct seq tuple tuple_struct map struct enum identifier ignored_any
    }
}

fn bump(c: u8) -> u8 {
    match c {
        b'a'..=b'y' | b'A'..=b'Y' | b'0'..=b'8' => c + 1,
        b'z' => b'a',
        b'Z' => b'A',
        b'9' => b'0',
        _ => c,
    }
}

/// strings one character away from `s` (last / first alphanumeric character of a subtag bumped):
/// what a cache with an incomplete key would confuse with `s`
pub fn neighbour_strings(s: &str) -> Vec<String> {
    let b = s.as_bytes();
    let mut out = vec![];
    let mut ends = vec![];
    for i in 0..b.len() {
        if b[i].is_ascii_alphanumeric() && (i + 1 == b.len() || !b[i + 1].is_ascii_alphanumeric()) {
            ends.push(i);
        }
    }
    for &i in ends.iter().rev().take(3).chain(ends.first()) {
        let mut c = b.to_vec();
        c[i] = bump(c[i]);
        if let Ok(t) = String::from_utf8(c) {
            if t != s && !out.contains(&t) {
                out.push(t);
            }
        }
    }
    out
}

/// values one subtag away from `li`: same language / script / region with every variant's last
/// character bumped (same count), and the region / script / language bumped in turn
pub fn neighbour_values(li: &LanguageIdentifier) -> Vec<LanguageIdentifier> {
    neighbour_strings(&li.to_string()).iter().filter_map(|t| t.parse().ok()).chain({
        let vs: Vec<String> = li.variants().map(|v| v.as_str().to_string()).collect();
        let all: Option<String> = if vs.is_empty() {
            None
        } else {
            let mut t = String::new();
            t.push_str(li.language.as_str());
            if let Some(s) = li.script {
                t.push('-');
                t.push_str(s.as_str());
            }
            if let Some(r) = li.region {
                t.push('-');
                t.push_str(r.as_str());
            }
            for v in &vs {
                let mut vb = v.clone().into_bytes();
                let k = vb.len() - 1;
                vb[k] = bump(vb[k]);
                t.push('-');
                t.push_str(&String::from_utf8_lossy(&vb));
            }
            Some(t)
        };
        all.and_then(|t| t.parse::<LanguageIdentifier>().ok())
    })
    .collect()
}

type R = Result<LanguageIdentifier, String>;

fn readers(s: &str) -> Vec<(&'static str, R)> {
    let e = |r: Result<LanguageIdentifier, serde_json::Error>| r.map_err(|e| e.to_string());
    let plain = serde_json::to_string(s).unwrap_or_else(|_| "\"\"".into());
    let esc = unicode_escape(s);
    let ve = |r: Result<LanguageIdentifier, serde::de::value::Error>| r.map_err(|e| e.to_string());
    let sd: serde::de::value::StrDeserializer<'_, serde::de::value::Error> = s.into_deserializer();
    let od: serde::de::value::StringDeserializer<serde::de::value::Error> = s.to_string().into_deserializer();
    let cd: serde::de::value::CowStrDeserializer<'_, serde::de::value::Error> = std::borrow::Cow::Borrowed(s).into_deserializer();
    let bd: serde::de::value::BorrowedStrDeserializer<'_, serde::de::value::Error> = serde::de::value::BorrowedStrDeserializer::new(s);
    vec![
        ("from_str(plain)", e(serde_json::from_str(&plain))),
        ("from_str(\\u-escaped)", e(serde_json::from_str(&esc))),
        ("from_slice(plain)", e(serde_json::from_slice(plain.as_bytes()))),
        ("from_slice(\\u-escaped)", e(serde_json::from_slice(esc.as_bytes()))),
        ("from_reader(plain)", e(serde_json::from_reader(plain.as_bytes()))),
        ("from_reader(\\u-escaped, padded)", e(serde_json::from_reader(format!(" \n{esc}\t ").as_bytes()))),
        ("from_value(String)", e(serde_json::from_value(Value::String(s.to_string())))),
        ("&Value::String", e(LanguageIdentifier::deserialize(&Value::String(s.to_string())))),
        ("StrDeserializer", ve(LanguageIdentifier::deserialize(sd))),
        ("StringDeserializer", ve(LanguageIdentifier::deserialize(od))),
        ("CowStrDeserializer", ve(LanguageIdentifier::deserialize(cd))),
        ("BorrowedStrDeserializer", ve(LanguageIdentifier::deserialize(bd))),
        ("probe(human-readable, visit_str)", ve(LanguageIdentifier::deserialize(ProbeDe { s, human: true, mode: 0 }))),
        ("probe(human-readable, visit_string)", ve(LanguageIdentifier::deserialize(ProbeDe { s, human: true, mode: 2 }))),
        ("probe(NOT human-readable, visit_str)", ve(LanguageIdentifier::deserialize(ProbeDe { s, human: false, mode: 0 }))),
        ("probe(NOT human-readable, visit_borrowed_str)", ve(LanguageIdentifier::deserialize(ProbeDe { s, human: false, mode: 1 }))),
        ("probe(NOT human-readable, visit_string)", ve(LanguageIdentifier::deserialize(ProbeDe { s, human: false, mode: 2 }))),
    ]
}

pub fn check_string(s: &str, st: &mut Stats, mode: Count) {
    netted(st, || bytes_case_kind("string", s.as_bytes()), s.len(), |st| check_string_inner(s, st, mode));
}

fn check_string_inner(s: &str, st: &mut Stats, mode: Count) {
    st.eval();
    let case = || bytes_case_kind("string", s.as_bytes());
    let parsed = match guard(|| s.parse::<LanguageIdentifier>()) {
        Ok(p) => p,
        Err(_) => return, // C01's business
    };
    let reference = model::ref_langid(s.as_bytes());
    if reference.is_ok() != parsed.is_ok() {
        // C02's business; the serde clause is stated relative to the library's parser
        st.class("parser-disagrees-with-reference (left to C02)");
    }
    let rs = match guard(|| readers(s)) {
        Ok(r) => r,
        Err(p) => {
            st.fail(format!("string:{}", panic_sig(&p)), case(), s.len(), format!("a serde reader panicked: {p:?}"));
            return;
        }
    };
    for (name, r) in rs {
        match (&parsed, &r) {
            (Ok(a), Ok(b)) => {
                if a != b || a.to_string() != b.to_string() {
                    st.fail(format!("string:value-differs:{name}"), case(), s.len(), format!("{name} gives {b}, parsing gives {a}"));
                }
            }
            (Err(_), Err(_)) => {}
            (Ok(a), Err(e)) => st.fail(format!("string:rejects-parseable:{name}"), case(), s.len(), format!("{name} -> Err({e}), parsing gives {a}")),
            (Err(e), Ok(b)) => st.fail(format!("string:accepts-unparseable:{name}"), case(), s.len(), format!("{name} -> Ok({b}), parsing gives Err({e:?})")),
        }
    }
    // hidden state: reading a string one character away right before must not change the answer
    let seq = guard(|| {
        let mut bad = vec![];
        for nb in neighbour_strings(s) {
            let _ = serde_json::from_value::<LanguageIdentifier>(Value::String(nb.clone()));
            let _ = LanguageIdentifier::deserialize(ProbeDe { s: &nb, human: false, mode: 0 });
            let again: Result<LanguageIdentifier, String> = serde_json::from_value(Value::String(s.to_string())).map_err(|e| e.to_string());
            let again2: Result<LanguageIdentifier, String> = LanguageIdentifier::deserialize(ProbeDe { s, human: false, mode: 0 }).map_err(|e| e.to_string());
            for a in [again, again2] {
                let same = match (&parsed, &a) {
                    (Ok(x), Ok(y)) => x == y && x.to_string() == y.to_string(),
                    (Err(_), Err(_)) => true,
                    _ => false,
                };
                if !same {
                    bad.push(format!("after reading {nb:?}: {a:?}"));
                }
            }
        }
        bad
    });
    match seq {
        Err(p) => st.fail(format!("string:sequence:{}", panic_sig(&p)), case(), s.len(), format!("panicked: {p:?}")),
        Ok(bad) if !bad.is_empty() => st.fail("string:answer-depends-on-earlier-reads", case(), s.len(), format!("parsing gives {:?}; {}", parsed.as_ref().map(|v| v.to_string()), bad[0])),
        Ok(_) => {}
    }
    // deserialize_in_place on a target that already holds a value with variants: the target
    // must end up equal to the parsed value (on success)
    let inplace = guard(|| {
        let mut target: LanguageIdentifier = "ca-Latn-ES-valencia-1996".parse().unwrap();
        let plain = serde_json::to_string(s).unwrap_or_else(|_| "\"\"".into());
        let mut de = serde_json::Deserializer::from_str(&plain);
        let r = <LanguageIdentifier as Deserialize>::deserialize_in_place(&mut de, &mut target).map_err(|e| e.to_string());
        let mut t2: Vec<LanguageIdentifier> = vec!["ca-ES-valencia".parse().unwrap(), "sl-rozaj-biske".parse().unwrap()];
        let arr = format!("[{plain},{plain}]");
        let mut de2 = serde_json::Deserializer::from_str(&arr);
        let r2 = <Vec<LanguageIdentifier> as Deserialize>::deserialize_in_place(&mut de2, &mut t2).map_err(|e| e.to_string());
        (r, target, r2, t2)
    });
    match inplace {
        Err(p) => st.fail(format!("string:in-place:{}", panic_sig(&p)), case(), s.len(), format!("deserialize_in_place panicked: {p:?}")),
        Ok((r, target, r2, t2)) => match &parsed {
            Ok(a) => {
                if r.is_err() || target != *a || target.to_string() != a.to_string() {
                    st.fail("string:in-place-differs", case(), s.len(), format!("deserialize_in_place into ca-Latn-ES-valencia-1996 gives {r:?} / {target}, parsing gives {a}"));
                }
                if r2.is_err() || t2.len() != 2 || t2.iter().any(|x| x != a) {
                    st.fail("string:in-place-vec-differs", case(), s.len(), format!("Vec::deserialize_in_place gives {r2:?} / {:?}, parsing gives {a}", t2.iter().map(|x| x.to_string()).collect::<Vec<_>>()));
                }
            }
            Err(_) => {
                if r.is_ok() || r2.is_ok() {
                    st.fail("string:in-place-accepts-unparseable", case(), s.len(), format!("deserialize_in_place -> Ok({target})"));
                }
            }
        },
    }
    let toks = model::split(s.as_bytes());
    if parsed.is_ok() {
        st.class("string:accepted");
    } else {
        st.class("string:rejected");
    }
    if toks.len() >= 2 && (parsed.is_ok() || model::is_language(toks[0])) {
        st.count(mode, hash_bytes(s.as_bytes()), case);
    }
}

pub fn check_value(li: &LanguageIdentifier, case: &Value, st: &mut Stats, mode: Count) {
    netted(st, || case.clone(), 10, |st| check_value_inner(li, case, st, mode));
}

fn check_value_inner(li: &LanguageIdentifier, case: &Value, st: &mut Stats, mode: Count) {
    st.eval();
    let size = values::case_size(case);
    let canon = model::canon_langid(&{
        let mut m = obs::obs_langid(li);
        m.variants.sort();
        m.variants.dedup();
        m
    });
    let r = guard(|| {
        let text = serde_json::to_string(li).map_err(|e| e.to_string())?;
        let val = serde_json::to_value(li).map_err(|e| e.to_string())?;
        let bytes = serde_json::to_vec(li).map_err(|e| e.to_string())?;
        let pretty = serde_json::to_string_pretty(li).map_err(|e| e.to_string())?;
        let back: Result<LanguageIdentifier, String> = serde_json::from_str(&text).map_err(|e| e.to_string());
        let back_v: Result<LanguageIdentifier, String> = serde_json::from_value(val.clone()).map_err(|e| e.to_string());
        Ok::<_, String>((text, val, bytes, pretty, back, back_v))
    });
    let (text, val, bytes, pretty, back, back_v) = match r {
        Ok(Ok(x)) => x,
        Ok(Err(e)) => {
            st.fail("value:serialise-fails", case.clone(), size, format!("{li}: {e}"));
            return;
        }
        Err(p) => {
            st.fail(format!("value:{}", panic_sig(&p)), case.clone(), size, format!("panicked: {p:?}"));
            return;
        }
    };
    let want = format!("\"{canon}\"");
    if text != want || pretty != want || bytes != want.as_bytes() || text != format!("\"{li}\"") {
        st.fail("value:not-the-canonical-string", case.clone(), size, format!("serialises to {text}, canonical string is {want} (Display: {li})"));
    }
    if val != Value::String(canon.clone()) {
        st.fail("value:to_value-not-the-canonical-string", case.clone(), size, format!("to_value gives {val}, expected string {canon}"));
    }
    // the hand-written probe format, human-readable and not
    for human in [true, false] {
        match guard(|| serde::Serialize::serialize(li, ProbeSer { human })) {
            Err(p) => st.fail(format!("value:probe:{}", panic_sig(&p)), case.clone(), size, format!("panicked: {p:?}")),
            Ok(Ok(t)) if t == canon => {}
            Ok(other) => st.fail(format!("value:not-the-canonical-string:probe-format(human_readable={human})"), case.clone(), size, format!("serialises to {other:?}, canonical string is {canon:?}")),
        }
        match guard(|| LanguageIdentifier::deserialize(ProbeDe { s: &canon, human, mode: 0 })) {
            Ok(Ok(b)) if b == *li && b.to_string() == li.to_string() => {}
            other => st.fail(format!("value:roundtrip-differs:probe-format(human_readable={human})"), case.clone(), size, format!("{li} -> {canon:?} -> {:?}", other.map(|r| r.map(|v| v.to_string()).map_err(|e| e.to_string())).map_err(|p| p.msg))),
        }
    }
    // hidden state: serialising / reading a value one subtag away right before must not matter
    {
        let r = guard(|| {
            let mut bad = vec![];
            for nb in neighbour_values(li) {
                let nt = serde_json::to_string(&nb).unwrap_or_default();
                let t = serde_json::to_string(li).unwrap_or_default();
                if t != want {
                    bad.push(format!("after serialising {nb}: {li} -> {t}"));
                }
                let _ = serde_json::from_str::<LanguageIdentifier>(&nt);
                match serde_json::from_str::<LanguageIdentifier>(&want) {
                    Ok(b) if b == *li => {}
                    other => bad.push(format!("after reading {nt}: {want} -> {:?}", other.map(|v| v.to_string()).map_err(|e| e.to_string()))),
                }
                let both = serde_json::to_string(&[nb.clone(), li.clone(), nb.clone()]).unwrap_or_default();
                let want3 = format!("[{nt},{want},{nt}]");
                if both != want3 {
                    bad.push(format!("as a sequence: {both} instead of {want3}"));
                }
            }
            bad
        });
        match r {
            Err(p) => st.fail(format!("value:sequence:{}", panic_sig(&p)), case.clone(), size, format!("panicked: {p:?}")),
            Ok(bad) if !bad.is_empty() => st.fail("value:answer-depends-on-earlier-calls", case.clone(), size, bad[0].clone()),
            Ok(_) => {}
        }
    }
    // a serialisation that fails half-way (writer runs out of room) must not affect later ones
    {
        struct Limited(usize);
        impl std::io::Write for Limited {
            fn write(&mut self, buf: &[u8]) -> std::io::Result<usize> {
                if buf.len() > self.0 {
                    self.0 = 0;
                    Err(std::io::Error::new(std::io::ErrorKind::WriteZero, "full"))
                } else {
                    self.0 -= buf.len();
                    Ok(buf.len())
                }
            }
            fn flush(&mut self) -> std::io::Result<()> {
                Ok(())
            }
        }
        let r = guard(|| {
            let mut outcomes = vec![];
            for room in [0usize, 1, want.len() / 2, want.len() - 1] {
                outcomes.push(serde_json::to_writer(Limited(room), li).is_ok());
                let mut small = [0u8; 3];
                outcomes.push(serde_json::to_writer(&mut small[..], li).is_ok());
            }
            let again = serde_json::to_string(li).unwrap_or_default();
            let other: LanguageIdentifier = "fr".parse().unwrap();
            let other_s = serde_json::to_string(&other).unwrap_or_default();
            (outcomes, again, other_s)
        });
        match r {
            Err(p) => st.fail(format!("value:failing-writer:{}", panic_sig(&p)), case.clone(), size, format!("panicked: {p:?}")),
            Ok((outcomes, again, other_s)) => {
                if outcomes.iter().any(|o| *o) {
                    st.fail("value:serialise-into-too-small-writer-succeeds", case.clone(), size, format!("{li}: {outcomes:?}"));
                }
                if again != want || other_s != "\"fr\"" {
                    st.fail("value:state-leaks-after-failed-serialisation", case.clone(), size, format!("after failed serialisations: {li} -> {again}, fr -> {other_s}"));
                }
            }
        }
    }
    // representation twin (G14): a present-but-empty variant list, reachable through the safe
    // constructor from_raw_parts_unchecked (an empty list is "deduplicated and ordered"), serialises
    // to the same canonical string, which reads back to a value that prints the same (== is not
    // judged here: the pinned code distinguishes the two representations, see DESIGN 3.2 G14)
    if li.variants().len() == 0 {
        let twin = LanguageIdentifier::from_raw_parts_unchecked(li.language, li.script, li.region, Some(Box::new([])));
        match guard(|| (serde_json::to_string(&twin).map_err(|e| e.to_string()), serde_json::to_value(&twin).map_err(|e| e.to_string()))) {
            Err(p) => st.fail(format!("value:present-but-empty-variants:{}", panic_sig(&p)), case.clone(), size, format!("panicked: {p:?}")),
            Ok((ts, tv)) => {
                if ts.as_deref() != Ok(want.as_str()) || tv != Ok(Value::String(li.to_string())) {
                    st.fail("value:present-but-empty-variants:not-the-canonical-string", case.clone(), size, format!("{li} built with Some([]) serialises to {ts:?} / {tv:?}, expected {want}"));
                } else if let Ok(t) = &ts {
                    match serde_json::from_str::<LanguageIdentifier>(t) {
                        Ok(b) if b.to_string() == li.to_string() => {}
                        other => st.fail("value:present-but-empty-variants:does-not-read-back", case.clone(), size, format!("{t} -> {:?}", other.map(|v| v.to_string()).map_err(|e| e.to_string()))),
                    }
                }
            }
        }
    }
    for (name, b) in [("from_str", &back), ("from_value", &back_v)] {
        match b {
            Ok(b) if b == li && b.to_string() == li.to_string() => {}
            Ok(b) => st.fail(format!("value:roundtrip-differs:{name}"), case.clone(), size, format!("{li} -> {text} -> {b}")),
            Err(e) => st.fail(format!("value:roundtrip-fails:{name}"), case.clone(), size, format!("{li} -> {text} -> Err({e})")),
        }
    }
    if li.script.is_some() as usize + li.region.is_some() as usize + li.variants().len() >= 1 {
        st.class("value:>=2-subtags");
        st.count(mode, hash_str(&case.to_string()), || case.clone());
    }
}

fn s_doc() -> proptest::strategy::SBoxedStrategy<Value> {
    let leaf = prop_oneof![
        Just(Value::Null),
        any::<bool>().prop_map(Value::Bool),
        any::<i64>().prop_map(|n| json!(n)),
        any::<u64>().prop_map(|n| json!(n)),
        any::<f64>().prop_filter("finite", |f| f.is_finite()).prop_map(|f| json!(f)),
        prop_oneof![Just("en".to_string()), Just("en-US".to_string()), Just("".to_string()), "[a-z-]{0,12}"].prop_map(Value::String),
    ]
    .sboxed();
    // depth-limited recursion, spelled out (prop_recursive's BoxedStrategy is not Sync)
    let mut level = leaf.clone();
    for _ in 0..3 {
        let inner = level.clone();
        level = prop_oneof![
            2 => leaf.clone(),
            2 => proptest::collection::vec(inner.clone(), 0..4).prop_map(Value::Array),
            2 => proptest::collection::vec((prop_oneof![Just("en".to_string()), "[a-z]{0,4}"], inner), 0..4).prop_map(|kv| Value::Object(kv.into_iter().collect())),
        ]
        .sboxed();
    }
    // documents that *spell* a well-formed identifier without being a JSON string: its bytes / code
    // points as an array of numbers, its characters as an array of one-character strings, the string
    // wrapped in an array / object (a deserialiser that asks for bytes, a sequence or "any" takes them)
    let spelled = (gen::s_langid_bytes(), 0u8..9).prop_map(|(b, k)| {
        let t = String::from_utf8_lossy(&b).to_string();
        // the identifier taken apart into an object / array of its fields (a "structured" form)
        let parts = || -> (String, Option<String>, Option<String>, Vec<String>) {
            let toks: Vec<String> = t.split(|c| c == '-' || c == '_').map(|s| s.to_string()).collect();
            let mut it = toks.into_iter();
            let lang = it.next().unwrap_or_default();
            let rest: Vec<String> = it.collect();
            let script = rest.iter().find(|x| x.len() == 4 && x.chars().all(|c| c.is_ascii_alphabetic())).cloned();
            let region = rest.iter().find(|x| (x.len() == 2 && x.chars().all(|c| c.is_ascii_alphabetic())) || (x.len() == 3 && x.chars().all(|c| c.is_ascii_digit()))).cloned();
            let variants: Vec<String> = rest.iter().filter(|x| Some(*x) != script.as_ref() && Some(*x) != region.as_ref()).rev().cloned().collect();
            (lang, script, region, variants)
        };
        match k {
            6 => {
                let (l, s, r, v) = parts();
                json!({"language": l, "script": s, "region": r, "variants": v})
            }
            7 => {
                let (l, s, r, v) = parts();
                json!([l, s, r, v])
            }
            8 => {
                let (l, s, r, v) = parts();
                json!({"lang": l, "script": s, "region": r, "variants": v, "language": l, "id": t})
            }
            0 => Value::Array(t.bytes().map(|c| json!(c)).collect()),
            1 => Value::Array(t.chars().map(|c| json!(c as u32)).collect()),
            2 => Value::Array(t.chars().map(|c| json!(c.to_string())).collect()),
            3 => json!([t]),
            4 => json!({ "id": t }),
            _ => Value::Array(t.split('-').map(|c| json!(c)).collect()),
        }
    });
    prop_oneof![6 => level, 1 => spelled].sboxed()
}

pub fn check_doc(doc: &Value, st: &mut Stats, mode: Count) {
    netted(st, || json!({"kind": "doc", "json": doc.to_string()}), doc.to_string().len(), |st| check_doc_inner(doc, st, mode));
}

fn check_doc_inner(doc: &Value, st: &mut Stats, mode: Count) {
    st.eval();
    if doc.is_string() {
        st.class("doc:top-level-string (skipped here, covered by the string clause)");
        return;
    }
    let text = doc.to_string();
    let case = || json!({"kind": "doc", "json": text});
    let r = guard(|| {
        let a: Result<LanguageIdentifier, _> = serde_json::from_str(&text);
        let b: Result<LanguageIdentifier, _> = serde_json::from_value(doc.clone());
        let c: Result<LanguageIdentifier, _> = serde_json::from_slice(text.as_bytes());
        let d: Result<LanguageIdentifier, _> = serde_json::from_reader(text.as_bytes());
        (a.map_err(|e| e.to_string()), b.map_err(|e| e.to_string()), c.map_err(|e| e.to_string()), d.map_err(|e| e.to_string()))
    });
    match r {
        Err(p) => st.fail(format!("doc:{}", panic_sig(&p)), case(), text.len(), format!("panicked: {p:?}")),
        Ok((a, b, c, d)) => {
            for (name, x) in [("from_str", a), ("from_value", b), ("from_slice", c), ("from_reader", d)] {
                if let Ok(v) = x {
                    let kind = match doc {
                        Value::Null => "null",
                        Value::Bool(_) => "bool",
                        Value::Number(_) => "number",
                        Value::Array(_) => "array",
                        Value::Object(_) => "object",
                        Value::String(_) => "string",
                    };
                    st.fail(format!("doc:non-string-accepted:{kind}:{name}"), case(), text.len(), format!("{name}({text}) -> Ok({v})"));
                }
            }
        }
    }
    st.class(match doc {
        Value::Null => "doc:null",
        Value::Bool(_) => "doc:bool",
        Value::Number(_) => "doc:number",
        Value::Array(_) => "doc:array",
        Value::Object(_) => "doc:object",
        Value::String(_) => "doc:string",
    });
    st.count(mode, hash_str(&text), case);
}

fn check_primitives(st: &mut Stats) {
    use serde::de::value::*;
    macro_rules! prim {
        ($name:expr, $d:expr) => {{
            st.eval();
            let case = json!({"kind": "primitive", "name": $name});
            match guard(|| LanguageIdentifier::deserialize($d)) {
                Err(p) => st.fail(format!("primitive:{}", panic_sig(&p)), case, 1, format!("panicked: {p:?}")),
                Ok(Ok(v)) => st.fail(format!("primitive:non-string-accepted:{}", $name), case, 1, format!("-> Ok({v})")),
                Ok(Err(_)) => {
                    st.class("primitive deserialiser rejected");
                    st.count(Count::Enum, hash_str($name), || case.clone());
                }
            }
        }};
    }
    prim!("bool", BoolDeserializer::<Error>::new(true));
    prim!("u8", U8Deserializer::<Error>::new(101));
    prim!("u32", U32Deserializer::<Error>::new(25966));
    prim!("u64", U64Deserializer::<Error>::new(28261));
    prim!("i64", I64Deserializer::<Error>::new(-1));
    prim!("f64", F64Deserializer::<Error>::new(1.5));
    prim!("char", CharDeserializer::<Error>::new('e'));
    prim!("unit", UnitDeserializer::<Error>::new());
    prim!("bytes", BytesDeserializer::<Error>::new(b"en"));
    prim!("seq", SeqDeserializer::<_, Error>::new(vec!["en".to_string()].into_iter()));
    prim!("seq-of-u8", SeqDeserializer::<_, Error>::new(b"en-US".to_vec().into_iter()));
    prim!("seq-of-char", SeqDeserializer::<_, Error>::new("en".chars()));
    prim!("borrowed-bytes", BorrowedBytesDeserializer::<Error>::new(b"en-US"));
    prim!("map", MapDeserializer::<_, Error>::new(vec![("en".to_string(), "US".to_string())].into_iter()));
    prim!("u16", U16Deserializer::<Error>::new(28261));
    prim!("i8", I8Deserializer::<Error>::new(101));
}

fn check_text(b: &[u8], st: &mut Stats) {
    // arbitrary (mostly invalid) JSON text: no panic; accepted only if it is a JSON string whose content parses
    st.eval();
    let r = guard(|| serde_json::from_slice::<LanguageIdentifier>(b).map_err(|e| e.to_string()));
    let case = || json!({"kind": "json-text", "hex": hex(b), "text": String::from_utf8_lossy(b)});
    match r {
        Err(p) => st.fail(format!("json-text:{}", panic_sig(&p)), case(), b.len(), format!("panicked: {p:?}")),
        Ok(Ok(v)) => {
            let as_string: Result<String, _> = serde_json::from_slice(b);
            match as_string {
                Ok(s) if s.parse::<LanguageIdentifier>() == Ok(v.clone()) => st.class("json-text: a JSON string that parses"),
                _ => st.fail("json-text:accepted-but-not-a-parseable-json-string", case(), b.len(), format!("-> Ok({v})")),
            }
        }
        Ok(Err(_)) => st.class("json-text: rejected"),
    }
}

pub fn run(cfg: &Cfg) -> Stats {
    // (b) strings
    let byte_f = |b: &[u8], st: &mut Stats, mode: Count| match std::str::from_utf8(b) {
        Ok(s) => check_string(s, st, mode),
        Err(_) => {
            st.class("not UTF-8: cannot be a JSON string (fed as raw JSON text instead)");
            let mut q = vec![b'"'];
            q.extend_from_slice(b);
            q.push(b'"');
            check_text(&q, st);
        }
    };
    let bf: &ByteCheck<'_> = &byte_f;
    let mut d = Driver::new(bf);
    d.first(&crate::props::spaces::sanitisation_slips(crate::props::spaces::SLIP_BASES_LANGID));
    let alpha = gen::langid_alphabet();
    for k in 1..=cfg.pick(3, 4) {
        d.enumerate(&format!("langid alphabet ({} tokens), {k} subtags, '-'", alpha.len()), &alpha, k, b'-', b"");
    }
    let n = cfg.pick(300_000, 3_000_000);
    d.strategy("G2 well-formed language ids, random case/separator masks (proptest)", &gen::s_langid_bytes(), cfg.seed, "c19-g2", n, |b| b.clone());
    d.strategy("G3 near-miss mutations of well-formed language ids (proptest)", &gen::s_near_miss_langid(), cfg.seed, "c19-g3", n, |b| b.clone());
    d.strategy("G4 weighted raw bytes (proptest)", &gen::s_raw(), cfg.seed, "c19-g4", n / 3, |b| b.clone());
    d.strategy("G2 long language ids, 5-16 variants, 60-150 bytes (proptest)", &gen::s_langid_long_bytes(), cfg.seed, "c19-g2long", n / 6, |b| b.clone());
    let uni = prop_oneof![
        "\\PC{0,12}",
        "[a-zA-Z]{2,3}([-_][a-zA-Z0-9]{1,8}){0,3}\\PC{0,2}",
        "[a-z]{2}-\\PC{1,4}",
        "[\u{ff41}-\u{ff5a}\u{0430}-\u{044f}a-z]{2,3}(-[\u{ff21}-\u{ff3a}A-Z]{2})?",
        "[a-z]{2}[\\x00-\\x1f\"\\\\/]{0,2}(-[A-Z]{2})?",
    ];
    d.strategy("arbitrary Unicode strings, look-alike letters, control characters and JSON meta characters (proptest)", &uni, cfg.seed, "c19-unicode", n, |s: &String| s.as_bytes().to_vec());
    let mut longs: Vec<Vec<u8>> = vec![];
    for n in 0..200usize {
        for ch in ["\u{e9}", "\u{20ac}", "\u{1f600}"] {
            // a long, almost well-formed string with one multi-byte character at byte offset n
            let mut base = String::from("en-Latn-US");
            while base.len() < n {
                base.push_str(["-valencia", "-1abc", "-abcde", "-x1y2z3"][base.len() % 4]);
            }
            base.truncate(n);
            longs.push(format!("{base}{ch}-trailing").into_bytes());
            longs.push(format!("{}{ch}", "a".repeat(n)).into_bytes());
        }
    }
    d.list("long strings (0-200 bytes) with one 2-, 3- or 4-byte character at every byte offset", &longs);
    // special words of the domain (none is a language identifier unless the grammar says so) and the
    // sanitisation slips of the language-id space
    let mut special: Vec<Vec<u8>> = ["root", "ROOT", "Root", "und", "UND", "mul", "zxx", "mis", "i-default", "x-private", "en-x-private", "*", "en-*", "C", "POSIX", "en_US.UTF-8", "en_US@euro", "true", "null", "None", "default", "und-x-foo", "und-u-ca-buddhist", "zh-cmn-Hans", "sgn-BE-FR", "i-klingon", "en-GB-oed", "art-lojban", "cel-gaulish", "no-bok", "zh-min-nan", "root-x-foo"]
        .iter()
        .map(|s| s.as_bytes().to_vec())
        .collect();
    special.extend(crate::props::spaces::sanitisation_slips(crate::props::spaces::SLIP_BASES_LANGID));
    d.list("special words (root, und, mul, POSIX names, grandfathered tags ...) and sanitisation slips", &special);
    let c = gen::corpus(&cfg.repo);
    let all: Vec<Vec<u8>> = c.locale_names.iter().chain(c.likely_keys.iter()).chain(c.likely_vals.iter()).map(|s| s.as_bytes().to_vec()).collect();
    d.list("G5 CLDR locale names, likelySubtags keys and values", &all);
    let mut total = d.total;
    // (a) values
    let s = values::for_each_value(cfg, "c19", &|loc, case, st, mode| {
        check_value(&loc.id, case, st, mode);
        if let Some(tl) = loc.extensions.transform.tlang() {
            let mut c2 = case.clone();
            c2["part"] = json!("tlang");
            check_value(tl, &c2, st, Count::No);
        }
    });
    total = total.merge(s);
    // (a') values next to the common ones (G17 containing languages): every CLDR locale name with its
    // language lengthened (es-US -> esu-US, esa-US, esperant-US ...) or its region / script bumped: a table of
    // pre-rendered common identifiers that is keyed by part of a subtag answers for these too
    {
        let mut near: Vec<Vec<u8>> = vec![];
        for name in c.locale_names.iter() {
            let toks: Vec<&str> = name.split('-').collect();
            if toks[0].len() == 2 && toks[0] != "un" {
                let rest = if toks.len() > 1 { format!("-{}", toks[1..].join("-")) } else { String::new() };
                for suf in ["u", "a", "z", "xxx", "perant"] {
                    near.push(format!("{}{suf}{rest}", toks[0]).into_bytes());
                }
            }
        }
        near.sort();
        near.dedup();
        let nn = near.len() as u64;
        let s = par_range(nn, |i, st| {
            let b = &near[i as usize];
            if let Ok(Ok(li)) = guard(|| LanguageIdentifier::from_bytes(b)) {
                check_value(&li, &bytes_case(b), st, Count::Hash);
            }
        });
        total = total.merge(s);
        total.subspace("values: every CLDR locale name with its two-letter language lengthened by u / a / z / xxx / perant", nn, true);
    }
    // (c) non-string documents
    let nd = cfg.pick(400_000, 3_000_000);
    let s = run_strategy(&s_doc(), cfg.seed, "c19-docs", nd, |doc, st| check_doc(doc, st, Count::Hash));
    total = total.merge(s);
    total.subspace("non-string JSON documents from a recursive strategy (proptest)", nd, false);
    let mut st = Stats::new();
    check_primitives(&mut st);
    total = total.merge(st);
    // truncated / mutated JSON text
    let nt = cfg.pick(300_000, 2_000_000);
    let strat = (s_doc(), any::<proptest::sample::Index>(), proptest::option::weighted(0.5, (any::<proptest::sample::Index>(), any::<u8>())));
    let s = run_strategy(&strat, cfg.seed, "c19-text", nt, |(doc, cut, edit), st| {
        let mut t = doc.to_string().into_bytes();
        let k = cut.index(t.len() + 1);
        t.truncate(k.max(1).min(t.len()));
        if let Some((i, b)) = edit {
            if !t.is_empty() {
                let i = i.index(t.len());
                t[i] = *b;
            }
        }
        check_text(&t, st);
    });
    total = total.merge(s);
    total.subspace("truncated / byte-edited JSON text (proptest)", nt, false);
    total
}

pub fn replay(case: &Value, st: &mut Stats) {
    match case["kind"].as_str() {
        Some("string") => {
            if let Some(b) = case_bytes(case) {
                if let Ok(s) = std::str::from_utf8(&b) {
                    check_string(s, st, Count::No);
                }
            }
        }
        Some("doc") => {
            if let Some(Ok(v)) = case["json"].as_str().map(serde_json::from_str::<Value>) {
                check_doc(&v, st, Count::No);
            }
        }
        Some("json-text") => {
            if let Some(b) = case_bytes(case) {
                check_text(&b, st);
            }
        }
        Some("primitive") => check_primitives(st),
        _ => {
            if let Some(loc) = values::value_from_case(case) {
                if case["part"] == json!("tlang") {
                    if let Some(tl) = loc.extensions.transform.tlang() {
                        check_value(tl, case, st, Count::No);
                    }
                } else {
                    check_value(&loc.id, case, st, Count::No);
                }
            }
        }
    }
}
