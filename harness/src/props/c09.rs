//! C09 — parsing ignores case, separator choice and the order of unordered parts.

use crate::gen::{self, Ast};
use crate::model::{self, Zone};
use crate::run::*;
use proptest::prelude::*;
use serde_json::{json, Value};
use unic_locale::{LanguageIdentifier, Locale};

pub const RULE: &str = "Domain: pairs (s, s') where s is a proptest-generated well-formed locale (G2), the same with one injected token-level defect no reordering can repair ('.' inside a subtag or an over-long subtag, inside a variant / attribute / type / tvalue / private tag), or a near-miss byte string (G3, case/separator transforms only); s' is s under a random case mask on ASCII letters, a random '-'/'_' mask, a permutation (with optional duplication) of the variant block and of the attribute block, a permutation of keyword blocks and of tfield blocks (distinct keys), a permutation of the tlang's variants and a swap of the whole -u- and -t- extensions - structural transforms are applied to the AST so both renderings denote the same identifier. Plus, exhaustively, every 'en-' + core-alphabet sequence paired with its upper-cased, '_'-separated image and, when it holds both -u- and -t-, with the image in which the two extensions are swapped (also when one of the two has an empty body). Plus the special words of other standards (grandfathered / redundant BCP 47 tags, POSIX names, withdrawn codes), bare and with three suffixes, under 40 case / separator images each. Oracle (metamorphic): both fail, or both parse to == values with identical to_string(), for Locale, (on the language-id part) LanguageIdentifier and (on the extension part alone) ExtensionsMap::from_bytes. Non-trivial = s != s' bytewise and a structural transform moved an element or the masks changed >= 2 positions. Distinctness: enumerated pairs by construction, generated pairs via a hash set over (s, s').";

#[derive(Clone, Debug)]
pub struct Tf {
    pub case2: u64,
    pub sep2: u64,
    pub perm: [u16; 24],
    pub vdup: Option<u16>,
    pub adup: Option<u16>,
    pub swap_ut: bool,
    /// how many more repetitions of variants / attributes / tlang variants (long tail: size and
    /// count limits applied before de-duplication only show with many repeats)
    pub reps: (u8, u8, u8),
    pub defect: Option<(u8, u16, u8)>,
}

fn permute<T: Clone>(v: &[T], idx: &[u16]) -> (Vec<T>, bool) {
    let mut out = v.to_vec();
    let n = out.len();
    let mut moved = false;
    for i in 0..n {
        let r = idx.get(i).copied().unwrap_or(0) as usize;
        let j = i + ((r * (n - i)) >> 16);
        if j != i {
            out.swap(i, j);
            moved = true;
        }
    }
    (out, moved)
}

fn s_tf() -> impl Strategy<Value = Tf> + Sync {
    (
        prop_oneof![1 => Just(0u64), 3 => any::<u64>(), 1 => Just(u64::MAX)],
        prop_oneof![2 => Just(0u64), 2 => any::<u64>()],
        proptest::array::uniform24(any::<u16>()),
        proptest::option::weighted(0.3, any::<u16>()),
        proptest::option::weighted(0.3, any::<u16>()),
        any::<bool>(),
        proptest::option::weighted(0.25, (0u8..5, any::<u16>(), 0u8..2)),
        {
            let rep = || prop_oneof![12 => Just(0u8), 3 => 1u8..4, 2 => 4u8..16, 1 => 16u8..70];
            (rep(), rep(), rep())
        },
    )
        .prop_map(|(case2, sep2, perm, vdup, adup, swap_ut, defect, reps)| Tf { case2, sep2, perm, vdup, adup, swap_ut, reps, defect })
}

const BAD: [&str; 2] = ["a.bcd", "toolongxxx"];

/// inject one defect into a list of the AST (before both renderings)
fn inject(a: &mut Ast, d: (u8, u16, u8)) -> bool {
    let bad = BAD[d.2 as usize % 2].to_string();
    let pick = |n: usize| (d.1 as usize * n) >> 16;
    match d.0 {
        0 if !a.id.variants.is_empty() => {
            let i = pick(a.id.variants.len());
            a.id.variants[i] = bad;
            true
        }
        1 if !a.attrs.is_empty() => {
            let i = pick(a.attrs.len());
            a.attrs[i] = bad;
            true
        }
        2 if a.kws.iter().any(|k| !k.1.is_empty()) => {
            let ks: Vec<usize> = a.kws.iter().enumerate().filter(|(_, k)| !k.1.is_empty()).map(|(i, _)| i).collect();
            let k = ks[pick(ks.len())];
            a.kws[k].1[0] = bad;
            true
        }
        3 if !a.tfields.is_empty() => {
            let k = pick(a.tfields.len());
            a.tfields[k].1[0] = bad;
            true
        }
        4 if !a.private.is_empty() => {
            let i = pick(a.private.len());
            a.private[i] = "a.b".to_string();
            true
        }
        _ => false,
    }
}

fn transform(a: &Ast, t: &Tf) -> (Ast, bool) {
    let mut b = a.clone();
    let mut moved = false;
    let (v, m) = permute(&a.id.variants, &t.perm[0..6]);
    b.id.variants = v;
    moved |= m;
    if let Some(d) = t.vdup {
        if !b.id.variants.is_empty() {
            let i = (d as usize * b.id.variants.len()) >> 16;
            let x = b.id.variants[i].clone();
            b.id.variants.push(x);
            moved = true;
        }
    }
    let repeat = |list: &mut Vec<String>, n: u8, salt: u16| {
        let len0 = list.len();
        if len0 == 0 {
            return false;
        }
        for k in 0..n as usize {
            let r = t.perm[(k + salt as usize) % 24] as usize ^ (k * 40503);
            let x = list[(r & 0xffff) * len0 >> 16].clone();
            let pos = ((r >> 3) & 0xffff) * (list.len() + 1) >> 16;
            list.insert(pos, x);
        }
        n > 0
    };
    moved |= repeat(&mut b.id.variants, t.reps.0, 1);
    let (v, m) = permute(&a.attrs, &t.perm[6..10]);
    b.attrs = v;
    moved |= m;
    if let Some(d) = t.adup {
        if !b.attrs.is_empty() {
            let i = (d as usize * b.attrs.len()) >> 16;
            let x = b.attrs[i].clone();
            b.attrs.insert(0, x);
            moved = true;
        }
    }
    moved |= repeat(&mut b.attrs, t.reps.1, 7);
    let (v, m) = permute(&a.kws, &t.perm[10..14]);
    b.kws = v;
    moved |= m;
    let (v, m) = permute(&a.tfields, &t.perm[14..18]);
    b.tfields = v;
    moved |= m;
    if let Some(tl) = &a.tlang {
        let (v, m) = permute(&tl.variants, &t.perm[18..22]);
        b.tlang.as_mut().unwrap().variants = v;
        moved |= m;
        moved |= repeat(&mut b.tlang.as_mut().unwrap().variants, t.reps.2, 13);
    }
    if t.swap_ut && a.has_u() && a.has_t() {
        b.u_first = !a.u_first;
        moved = true;
    }
    b.case_mask = a.case_mask ^ t.case2;
    b.sep_mask = a.sep_mask ^ t.sep2;
    (b, moved)
}

fn compare(s: &[u8], s2: &[u8], what: &str, st: &mut Stats, case: &dyn Fn() -> Value) {
    let size = s.len() + s2.len();
    let a = guard(|| Locale::from_bytes(s));
    let b = guard(|| Locale::from_bytes(s2));
    match (a, b) {
        (Ok(a), Ok(b)) => match (a, b) {
            (Err(_), Err(_)) => {}
            (Ok(x), Ok(y)) => {
                if x != y || x.to_string() != y.to_string() {
                    st.fail(format!("locale:values-differ:{what}"), case(), size, format!("{:?} vs {:?}", x.to_string(), y.to_string()));
                }
            }
            (x, y) => st.fail(
                format!("locale:one-parses-one-fails:{what}"),
                case(),
                size,
                format!("s -> {:?}; s' -> {:?}", x.map(|l| l.to_string()).map_err(|e| format!("{e:?}")), y.map(|l| l.to_string()).map_err(|e| format!("{e:?}"))),
            ),
        },
        (Err(p), _) | (_, Err(p)) => st.fail(panic_sig(&p), case(), size, "panic"),
    }
}

fn compare_li(s: &[u8], s2: &[u8], what: &str, st: &mut Stats, case: &dyn Fn() -> Value) {
    let size = s.len() + s2.len();
    let a = guard(|| LanguageIdentifier::from_bytes(s));
    let b = guard(|| LanguageIdentifier::from_bytes(s2));
    if let (Ok(a), Ok(b)) = (a, b) {
        match (a, b) {
            (Err(_), Err(_)) => {}
            (Ok(x), Ok(y)) => {
                if x != y || x.to_string() != y.to_string() {
                    st.fail(format!("langid:values-differ:{what}"), case(), size, format!("{:?} vs {:?}", x.to_string(), y.to_string()));
                }
            }
            (x, y) => st.fail(format!("langid:one-parses-one-fails:{what}"), case(), size, format!("s -> {:?}; s' -> {:?}", x.map(|l| l.to_string()), y.map(|l| l.to_string()))),
        }
    }
}

fn pair_case(s: &[u8], s2: &[u8]) -> Value {
    json!({"kind": "pair", "s": String::from_utf8_lossy(s), "s_hex": hex(s), "t": String::from_utf8_lossy(s2), "t_hex": hex(s2)})
}

fn diff_positions(a: &[u8], b: &[u8]) -> usize {
    if a.len() != b.len() {
        return usize::MAX;
    }
    a.iter().zip(b.iter()).filter(|(x, y)| x != y).count()
}

pub fn check_ast(a0: &Ast, t: &Tf, st: &mut Stats, mode: Count) {
    netted(st, || pair_case(&a0.render(), &transform(a0, t).0.render()), a0.render().len(), |st| check_ast_inner(a0, t, st, mode));
}

fn check_ast_inner(a0: &Ast, t: &Tf, st: &mut Stats, mode: Count) {
    st.eval();
    let mut a = a0.clone();
    let defect = match t.defect {
        Some(d) => inject(&mut a, d),
        None => false,
    };
    let (b, moved) = transform(&a, t);
    let s = a.render();
    let s2 = b.render();
    let what = if defect { "defective-base" } else { "wellformed-base" };
    let nontrivial = s != s2 && (moved || diff_positions(&s, &s2) >= 2);
    if nontrivial {
        st.class(what);
        if moved {
            st.class("structural-transform");
        }
        if b.u_first != a.u_first && !a.tfields.is_empty() {
            st.class("key:u/t-swapped-with-tfields");
        }
        let mut hb = s.clone();
        hb.push(0);
        hb.extend_from_slice(&s2);
        st.count(mode, hash_bytes(&hb), || pair_case(&s, &s2));
    }
    let case = || pair_case(&s, &s2);
    compare(&s, &s2, what, st, &case);
    // language-id part alone
    let mut t1 = vec![];
    a.id.tokens(&mut t1);
    let mut t2 = vec![];
    b.id.tokens(&mut t2);
    let l1 = gen::render_tokens(&t1, a.case_mask, a.sep_mask);
    let l2 = gen::render_tokens(&t2, b.case_mask, b.sep_mask);
    let case2 = || pair_case(&l1, &l2);
    compare_li(&l1, &l2, what, st, &case2);
    compare(&l1, &l2, what, st, &case2);
    // extension part alone, through the ExtensionsMap entry point
    let (ta, tb) = (a.tokens(), b.tokens());
    if ta.len() > t1.len() && tb.len() > t2.len() {
        let e1 = gen::render_tokens(&ta[t1.len()..].to_vec(), a.case_mask >> 3, a.sep_mask >> 3);
        let e2 = gen::render_tokens(&tb[t2.len()..].to_vec(), b.case_mask >> 5, b.sep_mask >> 5);
        let case3 = || pair_case(&e1, &e2);
        compare_ext(&e1, &e2, what, st, &case3);
        // the serialised form of an extension map starts with a separator (C17 re-parses it):
        // the same pair with a leading separator, '-' on one side and '_' or '-' on the other
        let mut d1 = vec![b'-'];
        d1.extend_from_slice(&e1);
        let mut d2 = vec![if (b.sep_mask >> 2) & 1 == 1 { b'-' } else { b'_' }];
        d2.extend_from_slice(&e2);
        let case4 = || pair_case(&d1, &d2);
        compare_ext(&d1, &d2, what, st, &case4);
    }
}

fn compare_ext(s: &[u8], s2: &[u8], what: &str, st: &mut Stats, case: &dyn Fn() -> Value) {
    use unic_locale::extensions::ExtensionsMap;
    let size = s.len() + s2.len();
    let a = guard(|| ExtensionsMap::from_bytes(s));
    let b = guard(|| ExtensionsMap::from_bytes(s2));
    // FromStr is a second public text route of the same type: same verdict and value on each side
    for (text, via_bytes) in [(s, &a), (s2, &b)] {
        if let (Ok(t), Ok(vb)) = (std::str::from_utf8(text), via_bytes) {
            match guard(|| t.parse::<ExtensionsMap>()) {
                Err(p) => st.fail(panic_sig(&p), case(), size, "ExtensionsMap::from_str panicked"),
                Ok(vs) => {
                    if vs.is_ok() != vb.is_ok() || (vs.is_ok() && vs.as_ref().ok() != vb.as_ref().ok()) {
                        st.fail(format!("extensionsmap:from_str-differs-from-from_bytes:{what}"), case(), size, format!("{t:?}: FromStr -> {:?}, from_bytes -> {:?}", vs.as_ref().map(|e| e.to_string()).map_err(|e| format!("{e:?}")), vb.as_ref().map(|e| e.to_string()).map_err(|e| format!("{e:?}"))));
                    }
                }
            }
        }
    }
    match (a, b) {
        (Ok(a), Ok(b)) => match (a, b) {
            (Err(_), Err(_)) => {}
            (Ok(x), Ok(y)) => {
                if x != y || x.to_string() != y.to_string() {
                    st.fail(format!("extensionsmap:values-differ:{what}"), case(), size, format!("{:?} vs {:?}", x.to_string(), y.to_string()));
                }
            }
            (x, y) => st.fail(
                format!("extensionsmap:one-parses-one-fails:{what}"),
                case(),
                size,
                format!("s -> {:?}; s' -> {:?}", x.map(|l| l.to_string()).map_err(|e| format!("{e:?}")), y.map(|l| l.to_string()).map_err(|e| format!("{e:?}"))),
            ),
        },
        (Err(p), _) | (_, Err(p)) => st.fail(panic_sig(&p), case(), size, "panic"),
    }
}

fn flip(b: &[u8], case2: u64, sep2: u64) -> Vec<u8> {
    let mut out = Vec::with_capacity(b.len());
    let (mut li, mut si) = (0u32, 0u32);
    for c in b {
        if c.is_ascii_alphabetic() {
            out.push(if (case2 >> (li % 64)) & 1 == 1 { c ^ 0x20 } else { *c });
            li += 1;
        } else if *c == b'-' || *c == b'_' {
            out.push(if (sep2 >> (si % 64)) & 1 == 1 { if *c == b'-' { b'_' } else { b'-' } } else { *c });
            si += 1;
        } else {
            out.push(*c);
        }
    }
    out
}

pub fn check_raw(s: &[u8], case2: u64, sep2: u64, st: &mut Stats, mode: Count) {
    netted(st, || pair_case(s, &flip(s, case2, sep2)), s.len(), |st| check_raw_inner(s, case2, sep2, st, mode));
}

fn check_raw_inner(s: &[u8], case2: u64, sep2: u64, st: &mut Stats, mode: Count) {
    st.eval();
    let s2 = flip(s, case2, sep2);
    if s != s2.as_slice() && diff_positions(s, &s2) >= 2 {
        st.class("raw-base:case/separator-only");
        let mut hb = s.to_vec();
        hb.push(0);
        hb.extend_from_slice(&s2);
        st.count(mode, hash_bytes(&hb), || pair_case(s, &s2));
    }
    let case = || pair_case(s, &s2);
    compare(s, &s2, "raw-base", st, &case);
    compare_li(s, &s2, "raw-base", st, &case);
}

/// exhaustive core sequences: upper-cased/'_' image and the u/t-swapped image
fn check_core(s: &[u8], st: &mut Stats) {
    netted(st, || pair_case(s, s), s.len(), |st| check_core_inner(s, st));
}

fn check_core_inner(s: &[u8], st: &mut Stats) {
    st.eval();
    let up: Vec<u8> = s.iter().map(|c| if *c == b'-' { b'_' } else { c.to_ascii_uppercase() }).collect();
    let case = || pair_case(s, &up);
    compare(s, &up, "core-upper", st, &case);
    if let Zone::MustAccept(_, p) = model::ref_locale(s) {
        let has_t = p.order.contains(&'t');
        let has_u = p.order.contains(&'u');
        st.nontrivial_enum(hash_bytes(s), case);
        if has_t && has_u {
            let toks = model::split(s);
            // locate the singletons in order
            let mut idx = vec![];
            let mut from = 1;
            for c in &p.order {
                if let Some(i) = (from..toks.len()).find(|i| toks[*i].len() == 1 && toks[*i][0].to_ascii_lowercase() == *c as u8) {
                    idx.push(i);
                    from = i + 1;
                }
            }
            if idx.len() == p.order.len() && idx.len() >= 2 {
                let end2 = if idx.len() > 2 { idx[2] } else { toks.len() };
                let mut sw: Vec<&[u8]> = toks[..idx[0]].to_vec();
                sw.extend_from_slice(&toks[idx[1]..end2]);
                sw.extend_from_slice(&toks[idx[0]..idx[1]]);
                sw.extend_from_slice(&toks[end2..]);
                let s2 = sw.join(&b'-');
                st.class("key:core-u/t-swapped");
                if !p.model.tfields.is_empty() {
                    st.class("key:u/t-swapped-with-tfields");
                }
                let case = || pair_case(s, &s2);
                compare(s, &s2, "core-ut-swap", st, &case);
            }
        }
    } else {
        st.class("core:not-wellformed(case-image-only)");
        // -u- and -t- where one of them (or both) has an empty body: still "the relative order of
        // the -u- and -t- extensions". Only inputs without empty subtags, each singleton once,
        // the two extensions adjacent and before any -x-.
        if let Zone::Either(_, "empty-subtag-or-body") = model::ref_locale(s) {
            let toks = model::split(s);
            let xpos = toks.iter().position(|t| t.len() == 1 && t[0].to_ascii_lowercase() == b'x').unwrap_or(toks.len());
            let find = |c: u8| -> Vec<usize> { (1..xpos).filter(|i| toks[*i].len() == 1 && toks[*i][0].to_ascii_lowercase() == c).collect() };
            let (us, ts) = (find(b'u'), find(b't'));
            let singles: Vec<usize> = (1..toks.len()).filter(|i| toks[*i].len() == 1).collect();
            if us.len() == 1 && ts.len() == 1 && toks.iter().all(|t| !t.is_empty()) {
                let (first, second) = (us[0].min(ts[0]), us[0].max(ts[0]));
                // adjacent: no other singleton between them
                if !singles.iter().any(|i| *i > first && *i < second) {
                    let end2 = singles.iter().copied().find(|i| *i > second).unwrap_or(toks.len());
                    let mut sw: Vec<&[u8]> = toks[..first].to_vec();
                    sw.extend_from_slice(&toks[second..end2]);
                    sw.extend_from_slice(&toks[first..second]);
                    sw.extend_from_slice(&toks[end2..]);
                    let s2 = sw.join(&b'-');
                    st.class("key:core-u/t-swapped-with-an-empty-body");
                    let case = || pair_case(s, &s2);
                    compare(s, &s2, "core-ut-swap-empty-body", st, &case);
                }
            }
        }
    }
}

pub fn run(cfg: &Cfg) -> Stats {
    let mut total = Stats::new();
    let core = gen::core_alphabet();
    for k in 1..=cfg.pick(5u32, 6u32) {
        let n = gen::pow(core.len(), k);
        let s = par_range(n, |i, st| {
            let mut seq = vec![];
            gen::nth_seq(&core, k, i, b'-', &mut seq);
            let mut b = b"en-".to_vec();
            b.extend_from_slice(&seq);
            check_core(&b, st);
        });
        total = total.merge(s);
        total.subspace(&format!("'en-' + core alphabet, {k} subtags: upper-case/'_' image and u/t swap"), n, true);
    }
    let n = cfg.pick(1_000_000, 8_000_000);
    let strat = (gen::s_ast(), s_tf());
    let s = run_strategy(&strat, cfg.seed, "c09-ast", n, |(a, t), st| check_ast(a, t, st, Count::Hash));
    total = total.merge(s);
    total.subspace("G2 locales (well-formed or with one irreparable defect) x structural/case/separator transforms (proptest)", n, false);
    let n2 = cfg.pick(500_000, 3_000_000);
    let strat2 = (gen::s_near_miss(), any::<u64>(), prop_oneof![Just(0u64), any::<u64>()]);
    let s = run_strategy(&strat2, cfg.seed, "c09-raw", n2, |(b, c, sp), st| check_raw(b, *c, *sp, st, Count::Hash));
    total = total.merge(s);
    total.subspace("G3 near-miss strings x case/separator masks (proptest)", n2, false);
    // words with a meaning elsewhere (grandfathered / redundant BCP 47 tags, POSIX names, withdrawn codes),
    // alone and followed by extensions: a whole-input or whole-prefix look-up table reacts to one
    // spelling of them only. 40 case / separator images each (all upper, all '_', both, seeded masks).
    let words: Vec<Vec<u8>> = crate::props::spaces::SPECIAL_WORDS
        .iter()
        .flat_map(|w| ["", "-u-ca-gregory", "-x-foo", "-valencia"].iter().map(move |s| format!("{w}{s}").into_bytes()))
        .collect();
    // inputs with a well-formed extension other than t / u / x in every legal position: the library
    // may reject or support them, but under case / separator images it must do the same for both
    let others = gen::other_ext_inputs();
    let no = others.len() as u64 * 6;
    let s = par_range(no, |i, st| {
        let w = &others[(i / 6) as usize];
        let (c, sp) = match i % 6 {
            0 => (u64::MAX, 0),
            1 => (0, u64::MAX),
            2 => (u64::MAX, u64::MAX),
            k => (mix(k ^ cfg.seed ^ i), mix(k.wrapping_mul(131) ^ cfg.seed ^ i)),
        };
        check_raw(w, c, sp, st, Count::Hash);
    });
    total = total.merge(s);
    total.subspace("inputs with an extension other than t / u / x (alone and next to -t-, -u-, -x-) x 6 case / separator images", no, false);
    let per = 40u64;
    let nw = words.len() as u64 * per;
    let s = par_range(nw, |i, st| {
        let w = &words[(i / per) as usize];
        let (c, sp) = match i % per {
            0 => (u64::MAX, 0),
            1 => (0, u64::MAX),
            2 => (u64::MAX, u64::MAX),
            3 => (1, 0),
            4 => (0, 1),
            k => (mix(k ^ cfg.seed ^ i), if k % 3 == 0 { 0 } else { mix(k.wrapping_mul(77) ^ cfg.seed ^ i) }),
        };
        check_raw(w, c, sp, st, Count::Hash);
    });
    total = total.merge(s);
    total.subspace("special words (grandfathered / redundant tags, POSIX names, withdrawn codes), bare and with a suffix, x 40 case / separator images", nw, false);
    total
}

pub fn replay(case: &Value, st: &mut Stats) {
    let (Some(a), Some(b)) = (case["s_hex"].as_str(), case["t_hex"].as_str()) else { return };
    let (s, s2) = (unhex(a), unhex(b));
    let c = || case.clone();
    compare(&s, &s2, "replay", st, &c);
    compare_li(&s, &s2, "replay", st, &c);
    compare_ext(&s, &s2, "replay", st, &c);
}
