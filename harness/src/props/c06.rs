//! C06 — maximize returns the CLDR likely-subtags answer for every input.
#![cfg(feature = "likely")]

use crate::likely::{Expect, Triple};
use crate::props::triples::*;
use crate::run::*;
use crate::values;
use serde_json::{json, Value};
use unic_locale::{LanguageIdentifier, Locale};

pub const RULE: &str = "Domain: (a) every key -> value entry of unic-langid-impl/data/likelySubtags.json except bare 'und' (exhaustive), as text through LanguageIdentifier::from_str + maximize() and Locale.id.maximize(); (b) (language, script, region) triples over every subtag occurring in that file plus absent and unknown representatives (qq, qqq, qqqqq; Qqqq; QQ, 999) through likelysubtags::maximize - quick: every (l,s,-), (l,-,r), (und,s,r), every full triple of the languages that have language-region / language-script entries, and a proptest sample of full triples; thorough: the whole universe (about 3.1e8); (c) proptest-generated identifiers biased to CLDR keys, keys with one extra component and values with components dropped, dressed with variants and extensions, through the maximize() methods. Oracle: a cascade re-implemented over a dictionary built at run time from the JSON (never from tables.rs): all three present => unchanged; language present => (language, region), else (language, script), else language alone; und => (script, region), else script alone, else region alone; given subtags kept; None iff all present or nothing matched. Where the strict cascade finds nothing but a UTS #35 fallback exists (bare und; und-script for a language without entry; und-region after an unknown script) None or exactly that fallback is accepted. Non-trivial = the reference finds an entry (the answer is Some); distinct by construction in enumerations, by hash set for generated cases.";

fn shape(t: Triple) -> &'static str {
    match (t.l != 0, t.s != 0, t.r != 0) {
        (false, false, false) => "und",
        (true, false, false) => "l",
        (true, true, false) => "ls",
        (true, false, true) => "lr",
        (true, true, true) => "lsr",
        (false, true, false) => "s",
        (false, true, true) => "sr",
        (false, false, true) => "r",
    }
}

/// compare a library answer with the reference; returns a failure signature + detail
pub fn judge(h: &Handles, t: Triple, got: &Option<Lib>) -> Option<(String, String)> {
    let exp = h.lk.expect_max(t);
    let lib_in = h.lib(t);
    let show_exp = |e: Option<Triple>| e.map(|v| format!("Some({})", h.lk.show(v))).unwrap_or("None".into());
    match exp {
        Expect::Exact(e) => {
            let e_lib = e.map(|v| h.lib(v));
            if *got == e_lib {
                return None;
            }
            let kind = match (got, &e_lib) {
                (None, Some(_)) => "entry-missed".to_string(),
                (Some(_), None) => "answer-without-entry".to_string(),
                (Some(g), Some(x)) => {
                    let mut w = vec![];
                    if g.0 != x.0 {
                        w.push(if t.l != 0 && g.0 != lib_in.0 { "given-language-lost" } else { "language" });
                    }
                    if g.1 != x.1 {
                        w.push(if t.s != 0 && g.1 != lib_in.1 { "given-script-lost" } else { "script" });
                    }
                    if g.2 != x.2 {
                        w.push(if t.r != 0 && g.2 != lib_in.2 { "given-region-lost" } else { "region" });
                    }
                    format!("wrong-{}", w.join("+"))
                }
                _ => "?".into(),
            };
            Some((format!("maximize:{}:{kind}", shape(t)), format!("maximize({}) = {}, CLDR cascade gives {}", h.lk.show(t), Handles::show_lib(got), show_exp(e))))
        }
        Expect::NoneOrFallback => {
            let fb = h.lk.fallback(t).map(|v| h.lib(v));
            if got.is_none() || *got == fb {
                None
            } else {
                Some((format!("maximize:{}:neither-none-nor-fallback", shape(t)), format!("maximize({}) = {}, expected None or the fallback {}", h.lk.show(t), Handles::show_lib(got), Handles::show_lib(&fb))))
            }
        }
    }
}

pub fn check_triple(h: &Handles, t: Triple, st: &mut Stats, mode: Count) {
    netted(st, || h.case(t), 3, |st| check_triple_inner(h, t, st, mode));
}

fn check_triple_inner(h: &Handles, t: Triple, st: &mut Stats, mode: Count) {
    st.eval();
    // decoy queries first: the answer must be a function of the query alone, not of what was
    // asked before on this thread (hidden caches keyed by a part of the triple)
    let (xl, xs, xr) = h.dims();
    let nz = |v: u16, n: u64| -> u16 {
        let w = (v as u64 + 1 + (hash_triple(t) % 7)) % n;
        if w == 0 { 1 } else { w as u16 }
    };
    for d in [Triple { l: t.l, s: nz(t.s, xs), r: t.r }, Triple { l: t.l, s: t.s, r: nz(t.r, xr) }, Triple { l: nz(t.l, xl), s: t.s, r: t.r }] {
        let _ = lib_max(h.lib(d));
        let _ = lib_min(h.lib(d));
    }
    let got = match lib_max(h.lib(t)) {
        Ok(g) => g,
        Err(p) => {
            st.fail(format!("maximize:{}", panic_sig(&p)), h.case(t), 3, format!("panicked: {p:?}"));
            return;
        }
    };
    if let Some((sig, detail)) = judge(h, t, &got) {
        st.fail(sig, h.case(t), 3, detail);
    }
    match h.lk.expect_max(t) {
        Expect::Exact(Some(_)) => {
            st.class(match shape(t) {
                "l" => "entry:language-alone",
                "ls" => "entry:language+script",
                "lr" => "entry:language+region",
                "s" => "entry:und-script",
                "sr" => "entry:und-script+region",
                "r" => "entry:und-region",
                _ => "entry:other",
            });
            st.count(mode, hash_triple(t), || h.case(t));
        }
        Expect::Exact(None) => st.class(if shape(t) == "lsr" { "none:all-three-present" } else { "none:no-entry" }),
        Expect::NoneOrFallback => st.class(if got.is_none() { "fallback-allowed:library-answers-None" } else { "fallback-allowed:library-answers-fallback" }),
    }
}

fn entry_case(k: &str, v: &str) -> Value {
    json!({"kind": "entry", "key": k, "value": v})
}

/// clause 1 at the text level: parse K, maximize, print, compare with V
pub fn check_entry(k: &str, v: &str, st: &mut Stats) {
    st.eval();
    let r = guard(|| {
        let mut li: LanguageIdentifier = k.parse().map_err(|e| format!("key does not parse: {e:?}"))?;
        let changed = li.maximize();
        let mut loc: Locale = format!("{k}-u-ca-buddhist-x-priv").parse().map_err(|e| format!("key + extensions does not parse: {e:?}"))?;
        let lchanged = loc.id.maximize();
        Ok::<_, String>((changed, li.to_string(), lchanged, loc.to_string()))
    });
    match r {
        Err(p) => st.fail(format!("entry:{}", panic_sig(&p)), entry_case(k, v), k.len(), format!("panicked: {p:?}")),
        Ok(Err(e)) => st.oracle_error(format!("CLDR key {k}: {e}")),
        Ok(Ok((changed, s, lchanged, ls))) => {
            // other spellings of the same key (upper case, lower case with '_'): same answer
            for alt in [k.to_ascii_uppercase(), k.to_ascii_lowercase().replace('-', "_")] {
                let r2 = guard(|| {
                    let mut li: LanguageIdentifier = alt.parse().map_err(|e| format!("{e:?}"))?;
                    let c = li.maximize();
                    Ok::<_, String>((c, li.to_string()))
                });
                match r2 {
                    Ok(Ok((c2, s2))) if c2 == changed && s2 == s => {}
                    other => st.fail("entry:spelling-of-the-key-matters", entry_case(k, v), k.len(), format!("{k}: maximize() = {changed} -> {s}; spelled {alt:?}: {other:?}")),
                }
            }
            // the generator drops a ZZ region from values; none occurs in the bundled data
            let want = v.to_string();
            if s != want || changed != (k != v) {
                st.fail("entry:langid-maximize-differs-from-cldr-value", entry_case(k, v), k.len(), format!("{k}: maximize() = {changed}, gives {s}, CLDR says {v}"));
            }
            let lwant = format!("{want}-u-ca-buddhist-x-priv");
            if ls != lwant || lchanged != changed {
                st.fail("entry:locale-id-maximize-differs", entry_case(k, v), k.len(), format!("{k}-u-ca-buddhist-x-priv: id.maximize() = {lchanged}, gives {ls}, expected {lwant}"));
            }
            st.class("cldr-entry(text level)");
        }
    }
}

pub fn check_dressed(h: &Handles, d: &Dressed, st: &mut Stats) {
    let p = h.dressed_parts(d);
    check_parts(h, &p, st, Count::Hash);
}

pub fn check_parts(h: &Handles, p: &values::Parts, st: &mut Stats, mode: Count) {
    netted(st, || values::parts_case(p), values::parts_case(p).to_string().len(), |st| check_parts_inner(h, p, st, mode));
}

fn check_parts_inner(h: &Handles, p: &values::Parts, st: &mut Stats, mode: Count) {
    st.eval();
    let case = || values::parts_case(p);
    let size = case().to_string().len();
    let (Some(t), Some(b)) = (h.triple_of_parts(p), values::parse_parts(p)) else {
        st.class("parts-not-buildable(skipped)");
        return;
    };
    let r = guard(|| {
        let mut li = LanguageIdentifier::from_parts(b.language, b.script, b.region, &b.variants);
        let c1 = li.maximize();
        let mut loc = Locale::from_parts(b.language, b.script, b.region, &b.variants, b.ext.clone());
        let c2 = loc.id.maximize();
        (c1, li, c2, loc)
    });
    let (c1, li, c2, loc) = match r {
        Ok(x) => x,
        Err(pn) => {
            st.fail(format!("method:{}", panic_sig(&pn)), case(), size, format!("panicked: {pn:?}"));
            return;
        }
    };
    let after = lib_triple(&li);
    let got = if c1 { Some(after) } else { None };
    if let Some((sig, detail)) = judge(h, t, &got) {
        st.fail(format!("method:{sig}"), case(), size, format!("LanguageIdentifier::maximize(): {detail}"));
    }
    // text level: the printed identifier is the expected triple followed by the variants
    if let Expect::Exact(e) = h.lk.expect_max(t) {
        let want_t = e.unwrap_or(t);
        let mut vs: Vec<String> = p.variants.iter().map(|v| v.to_ascii_lowercase()).collect();
        vs.sort();
        vs.dedup();
        let opt = |x: &String| if x.is_empty() { None } else { Some(x.clone()) };
        let m = crate::model::LangModel { language: if want_t.l == 0 { None } else { Some(h.lk.uni.langs[want_t.l as usize].clone()) }, script: opt(&h.lk.uni.scripts[want_t.s as usize]), region: opt(&h.lk.uni.regions[want_t.r as usize]), variants: vs };
        let want = crate::model::canon_langid(&m);
        if li.to_string() != want || loc.id.to_string() != want {
            st.fail("method:printed-form-differs", case(), size, format!("after maximize(): {li} / {}, expected {want}", loc.id));
        }
    }
    if !c1 && after != h.lib(t) {
        st.fail("method:false-but-changed", case(), size, format!("maximize() returned false but the identifier became {li}"));
    }
    if c2 != c1 || loc.id != li {
        st.fail("method:locale-id-differs-from-langid", case(), size, format!("LanguageIdentifier -> {li} ({c1}), Locale.id -> {} ({c2})", loc.id));
    }
    if matches!(h.lk.expect_max(t), Expect::Exact(Some(_))) {
        st.class("method:entry");
        st.count(mode, hash_str(&case().to_string()), case);
    } else {
        st.class("method:no-entry");
    }
}

pub fn run(cfg: &Cfg) -> Stats {
    let h = match load_or_error(cfg) {
        Ok(h) => h,
        Err(st) => return st,
    };
    let mut total = Stats::new();
    let entries: Vec<(String, String)> = h.lk.entries.iter().filter(|(k, _)| k != "und").cloned().collect();
    let s = par_range(entries.len() as u64, |i, st| {
        let (k, v) = &entries[i as usize];
        check_entry(k, v, st);
    });
    total = total.merge(s);
    total.subspace("every likelySubtags.json entry except bare und, text level (from_str, maximize, to_string)", entries.len() as u64, true);
    if entries.len() < 1000 {
        total.oracle_error(format!("only {} CLDR entries found", entries.len()));
    }
    total = total.merge(sweep(cfg, &h, "c06", &|t, st, mode| check_triple(&h, t, st, mode)));
    let n = cfg.pick(1_000_000, 6_000_000);
    let s = run_strategy(&s_dressed(&h), cfg.seed, "c06-dressed", n, |d, st| check_dressed(&h, d, st));
    total = total.merge(s);
    total.subspace("identifiers biased to CLDR keys / values with dropped components, with variants and extensions, through the maximize() methods (proptest)", n, false);
    total.extra.insert("cldr_entries".into(), json!(entries.len()));
    total.extra.insert("cldr_version".into(), json!(h.lk.version));
    total
}

pub fn replay(case: &Value, st: &mut Stats) {
    let cfg = replay_cfg("C06");
    let Ok(h) = Handles::load(&cfg) else { return };
    match case["kind"].as_str() {
        Some("triple") => {
            if let Some(t) = h.from_case(case) {
                check_triple(&h, t, st, Count::No);
            }
        }
        Some("entry") => {
            if let Some(k) = case["key"].as_str() {
                if let Some((k, v)) = h.lk.entries.iter().find(|(kk, _)| kk == k) {
                    check_entry(k, v, st);
                }
            }
        }
        Some("parts") => {
            if let Some(p) = values::parts_from_case(case) {
                check_parts(&h, &p, st, Count::No);
            }
        }
        _ => {}
    }
}
