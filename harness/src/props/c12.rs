//! C12 — equality, ordering and hashing agree with the canonical string.

use crate::model::LangModel;
use crate::obs;
use crate::run::*;
use crate::values;
use rayon::prelude::*;
use serde_json::{json, Value};
use std::cmp::Ordering;
use std::collections::hash_map::DefaultHasher;
use std::hash::{Hash, Hasher};
use std::sync::Mutex;
use unic_locale::Locale;

pub const RULE: &str = "Domain: pools of reachable values (G8) in which logical values are reached along several routes (different spellings, from_parts with permuted/duplicated variants, add-then-remove histories, set_variants(&[]) vs never set, remove_keyword vs never added, clear_*): the values are collected from the C04 sources, bucketed, and all pairs inside pools of 300 | 1500 values plus sampled triples are compared, for Locale, LanguageIdentifier, ExtensionsMap, the three extension lists and the subtag types. Oracle: x == y <=> x.to_string() == y.to_string(); equal => same DefaultHasher digest and cmp == Equal; cmp antisymmetric, transitive on triples; for LanguageIdentifier cmp equals the field-wise model order (language with und first, then script, region, variant list, absent first); for Locale the id dominates; value == \"text\" <=> text is the canonical string (probed with the canonical string, case variants, '_' variants, prefixes). Every collected value is also paired with its boundary-shift twins (one character moved between two adjacent variants / private tags), its near twins (last character of one subtag changed) and - maximized / minimized CLDR keys - the re-parse of its printed form. Cold start: 1200 | 6000 pairs of identifiers built through the raw constructors are compared (==, cmp, hash, has_variant, then to_string and == &str) as the first library calls of a fresh child process each, against the string clause and against the same calls in the warm process. Non-trivial pair = two different routes reaching the same string, or values differing in exactly one field. Distinct pairs counted through a hash set over (route case, route case).";

fn h<T: Hash>(t: &T) -> u64 {
    let mut s = DefaultHasher::new();
    t.hash(&mut s);
    s.finish()
}

fn model_cmp(a: &LangModel, b: &LangModel) -> Ordering {
    // Option<String>: None < Some, strings bytewise; Vec lexicographic; empty list first
    a.language
        .cmp(&b.language)
        .then_with(|| a.script.cmp(&b.script))
        .then_with(|| a.region.cmp(&b.region))
        .then_with(|| match (a.variants.is_empty(), b.variants.is_empty()) {
            (true, true) => Ordering::Equal,
            (true, false) => Ordering::Less,
            (false, true) => Ordering::Greater,
            _ => a.variants.cmp(&b.variants),
        })
}

struct Item {
    loc: Locale,
    s: String,
    case: Value,
    case_h: u64,
    case_s: String,
    id_s: String,
    m: LangModel,
    e_s: String,
    u_s: String,
    t_s: String,
    p_s: String,
    h_loc: u64,
    h_id: u64,
}

fn item(loc: Locale, case: Value) -> Item {
    Item {
        s: loc.to_string(),
        case_h: hash_str(&case.to_string()),
        case_s: case.to_string(),
        id_s: loc.id.to_string(),
        m: obs::obs_langid(&loc.id),
        e_s: loc.extensions.to_string(),
        u_s: loc.extensions.unicode.to_string(),
        t_s: loc.extensions.transform.to_string(),
        p_s: loc.extensions.private.to_string(),
        h_loc: h(&loc),
        h_id: h(&loc.id),
        loc,
        case,
    }
}

fn pair_case(a: &Item, b: &Item) -> Value {
    json!({"kind": "value-pair", "a": a.case, "b": b.case})
}

fn check_pair(a: &Item, b: &Item, st: &mut Stats, mode: Count) {
    netted(st, || pair_case(a, b), 10, |st| check_pair_inner(a, b, st, mode));
}

fn check_pair_inner(a: &Item, b: &Item, st: &mut Stats, mode: Count) {
    st.eval();
    let case = || pair_case(a, b);
    let size = a.s.len() + b.s.len();
    let same_s = a.s == b.s;
    let eq = a.loc == b.loc;
    if eq != same_s {
        st.fail(if eq { "locale:equal-but-strings-differ" } else { "locale:same-string-but-not-equal" }, case(), size, format!("{:?} vs {:?}", a.s, b.s));
    }
    let c = a.loc.cmp(&b.loc);
    if eq && (a.h_loc != b.h_loc || c != Ordering::Equal) {
        st.fail("locale:equal-but-hash-or-cmp-differ", case(), size, a.s.clone());
    }
    if (c == Ordering::Equal) != eq || b.loc.cmp(&a.loc) != c.reverse() || a.loc.partial_cmp(&b.loc) != Some(c) {
        st.fail("locale:cmp-inconsistent", case(), size, format!("{:?} vs {:?}: {c:?}", a.s, b.s));
    }
    // language identifier part
    let (ia, ib) = (&a.loc.id, &b.loc.id);
    let (sa, sb) = (&a.id_s, &b.id_s);
    if (ia == ib) != (sa == sb) {
        st.fail("langid:eq-vs-string", case(), size, format!("{sa:?} vs {sb:?}"));
    }
    if ia == ib && (a.h_id != b.h_id || ia.cmp(ib) != Ordering::Equal) {
        st.fail("langid:equal-but-hash-or-cmp-differ", case(), size, sa.clone());
    }
    let (ma, mb) = (&a.m, &b.m);
    let mc = model_cmp(ma, mb);
    if ia.cmp(ib) != mc {
        st.fail("langid:order-differs-from-fieldwise-model", case(), size, format!("{sa:?} vs {sb:?}: library {:?}, model {mc:?}", ia.cmp(ib)));
    }
    if mc != Ordering::Equal && c != mc {
        st.fail("locale:id-does-not-dominate-order", case(), size, format!("{:?} vs {:?}: {c:?}, ids {mc:?}", a.s, b.s));
    }
    // extension map and lists
    let (ea, eb) = (&a.loc.extensions, &b.loc.extensions);
    if (ea == eb) != (a.e_s == b.e_s) || (ea == eb && h(ea) != h(eb)) {
        st.fail("extensionsmap:eq-vs-string", case(), size, format!("{:?} vs {:?}", a.e_s, b.e_s));
    }
    if (ea.unicode == eb.unicode) != (a.u_s == b.u_s) || (ea.unicode == eb.unicode && (h(&ea.unicode) != h(&eb.unicode) || ea.unicode.cmp(&eb.unicode) != Ordering::Equal)) {
        st.fail("unicode-list:eq-vs-string", case(), size, format!("{:?} vs {:?}", a.u_s, b.u_s));
    }
    if (ea.transform == eb.transform) != (a.t_s == b.t_s) || (ea.transform == eb.transform && (h(&ea.transform) != h(&eb.transform) || ea.transform.cmp(&eb.transform) != Ordering::Equal)) {
        st.fail("transform-list:eq-vs-string", case(), size, format!("{:?} vs {:?}", a.t_s, b.t_s));
    }
    if (ea.private == eb.private) != (a.p_s == b.p_s) || (ea.private == eb.private && (h(&ea.private) != h(&eb.private) || ea.private.cmp(&eb.private) != Ordering::Equal)) {
        st.fail("private-list:eq-vs-string", case(), size, format!("{:?} vs {:?}", a.p_s, b.p_s));
    }
    // subtags
    if (ia.language == ib.language) != (ia.language.as_str() == ib.language.as_str()) || ia.language.cmp(&ib.language) != ma.language.cmp(&mb.language) {
        st.fail("language:eq-or-order", case(), size, format!("{} vs {}", ia.language, ib.language));
    }
    if ia.script.cmp(&ib.script) != ma.script.cmp(&mb.script) || ia.region.cmp(&ib.region) != ma.region.cmp(&mb.region) {
        st.fail("script-or-region:order", case(), size, format!("{sa} vs {sb}"));
    }
    // == &str
    if !(*ia == sa.as_str()) || (*ia == sb.as_str()) != (sa == sb) {
        st.fail("langid:eq-str", case(), size, format!("{sa:?} == {sb:?}"));
    }
    if a.case_h == b.case_h {
        // probes with non-canonical spellings (once per value: on the diagonal)
        let up = sa.to_ascii_uppercase();
        let us = sa.replace('-', "_");
        if (up != *sa && *ia == up.as_str()) || (us != *sa && *ia == us.as_str()) || (sa.len() > 2 && *ia == &sa[..sa.len() - 1]) {
            st.fail("langid:eq-str-accepts-non-canonical", case(), size, sa.clone());
        }
        for pad in ["\0", " ", "-", "-x", "\0\0\0", "-US", "-valencia", "_"] {
            let p1 = format!("{sa}{pad}");
            let p2 = format!("{pad}{sa}");
            if *ia == p1.as_str() || *ia == p2.as_str() {
                st.fail("langid:eq-str-accepts-padded-text", case(), size, format!("{sa:?} == {p1:?} or {p2:?}"));
            }
        }
        // subtags: == &str only for the exact canonical text
        let mut texts: Vec<(String, bool)> = vec![];
        {
            let mut probe = |canon: &str, f: &dyn Fn(&str) -> bool| {
                let mut ok = f(canon);
                for pad in ["\0", " ", "a", "-", "\0\0"] {
                    ok &= !f(&format!("{canon}{pad}")) && !f(&format!("{pad}{canon}"));
                }
                if canon.len() > 1 {
                    ok &= !f(&canon[..canon.len() - 1]);
                }
                // other letter cases of the same text are different strings
                for alt in [canon.to_ascii_lowercase(), canon.to_ascii_uppercase(), {
                    let mut t = canon.to_ascii_lowercase();
                    if let Some(c) = t.get_mut(0..1) {
                        c.make_ascii_uppercase();
                    }
                    t
                }] {
                    if alt != canon {
                        ok &= !f(&alt);
                    }
                }
                texts.push((canon.to_string(), ok));
            };
            let l = ia.language;
            probe(l.as_str(), &|t| l == t);
            if let Some(x) = ia.script {
                probe(x.as_str(), &|t| x == t);
            }
            if let Some(x) = ia.region {
                probe(x.as_str(), &|t| x == t);
            }
            for x in ia.variants() {
                probe(x.as_str(), &|t| *x == t);
                probe(x.as_str(), &|t| *x == *t);
            }
        }
        for (t, ok) in texts {
            if !ok {
                st.fail("subtag:eq-str-not-exact", case(), size, format!("subtag {t:?} of {sa:?}: == &str is not 'exactly the canonical text'"));
            }
        }
        // Eq / Hash / Ord must stay mutually consistent whatever the public fields hold,
        // including the unsupported `other` map (== vs to_string is NOT claimed for it)
        let mut x = a.loc.clone();
        let key = if a.case_h % 2 == 0 { 'a' } else { 'b' };
        x.extensions.other.insert(key, vec![]);
        let y = a.loc.clone();
        let e = x == y;
        let ee = x.extensions == y.extensions;
        if (e && (h(&x) != h(&y) || x.cmp(&y) != Ordering::Equal)) || (!e && x.cmp(&y) == Ordering::Equal) || (ee && (h(&x.extensions) != h(&y.extensions) || x.extensions.cmp(&y.extensions) != Ordering::Equal)) || (!ee && x.extensions.cmp(&y.extensions) == Ordering::Equal) {
            st.fail("locale:eq-hash-ord-inconsistent-with-other-field", case(), size, format!("{:?}: == is {e}, hashes equal {}, cmp {:?}", a.s, h(&x) == h(&y), x.cmp(&y)));
        }
    }
    let diff_fields = (ma.language != mb.language) as u8 + (ma.script != mb.script) as u8 + (ma.region != mb.region) as u8 + (ma.variants != mb.variants) as u8 + (ea.unicode != eb.unicode) as u8 + (ea.transform != eb.transform) as u8 + (ea.private != eb.private) as u8;
    let nontrivial = (same_s && a.case_s != b.case_s) || diff_fields == 1;
    if nontrivial {
        st.class(if same_s { "same-value-two-routes" } else { "one-field-apart" });
        st.count(mode, mix(a.case_h ^ b.case_h.rotate_left(17)), case);
    }
}

/// ==, hash and cmp must be consistent with each other on pairs the string clause does not cover
fn consistency_pairs(a: &Item, st: &mut Stats) {
    let r = guard(|| {
        let mut out: Vec<(String, Locale, Locale)> = vec![];
        let (l, sc, rg, vs) = a.loc.id.clone().into_parts();
        let tw = unic_locale::LanguageIdentifier::from_raw_parts_unchecked(l, sc, rg, Some(vs.into_boxed_slice()));
        let mut t = a.loc.clone();
        t.id = tw;
        out.push(("raw-parts-twin".into(), a.loc.clone(), t));
        let mut o1 = a.loc.clone();
        o1.extensions.other.insert('a', vec!["foo".parse().unwrap()]);
        let mut o2 = a.loc.clone();
        o2.extensions.other.insert('a', vec!["foo".parse().unwrap(), "bar".parse().unwrap()]);
        let mut o3 = a.loc.clone();
        o3.extensions.other.insert('b', vec!["foo".parse().unwrap()]);
        out.push(("other-vs-none".into(), a.loc.clone(), o1.clone()));
        out.push(("other-vs-other".into(), o1.clone(), o2));
        out.push(("other-vs-other-key".into(), o1.clone(), o3));
        out.push(("other-vs-same".into(), o1.clone(), o1));
        out
    });
    let Ok(pairs) = r else { return };
    for (what, x, y) in pairs {
        st.eval();
        st.class(&format!("consistency-only pair: {what}"));
        let case = || json!({"kind": "consistency-pair", "what": what, "a": a.case});
        let r = guard(|| {
            let eq = x == y;
            let c = x.cmp(&y);
            let mut bad = vec![];
            if eq && h(&x) != h(&y) {
                bad.push("equal values hash differently");
            }
            if eq != (c == Ordering::Equal) || y.cmp(&x) != c.reverse() || x.partial_cmp(&y) != Some(c) {
                bad.push("== and cmp disagree");
            }
            let (ix, iy) = (&x.id, &y.id);
            if (ix == iy) && h(ix) != h(iy) || (ix == iy) != (ix.cmp(iy) == Ordering::Equal) {
                bad.push("language identifier: ==, hash and cmp disagree");
            }
            let (ex, ey) = (&x.extensions, &y.extensions);
            if (ex == ey) && h(ex) != h(ey) || (ex == ey) != (ex.cmp(ey) == Ordering::Equal) {
                bad.push("extensions map: ==, hash and cmp disagree");
            }
            bad
        });
        match r {
            Ok(bad) => {
                for b in bad {
                    st.fail(format!("consistency:{what}:{b}"), case(), a.s.len(), format!("{} ({what})", a.s));
                }
            }
            Err(p) => st.fail(format!("consistency:{}", panic_sig(&p)), case(), a.s.len(), format!("{p:?}")),
        }
    }
}

/// G32 - boundary-shift twins: the value with one character moved across the boundary between two
/// adjacent variants (`...-baaaa-cccccc` / `...-baaaac-ccccc`) or two adjacent private tags. The two
/// values are different and their texts without separators coincide: a rendering that loses a
/// separator somewhere (chunked buffers, long values) prints them alike. Both go through the
/// ordinary pair clauses (== iff same string, hash, cmp).
fn shift_twins(a: &Item, st: &mut Stats) {
    if !a.loc.extensions.other.is_empty() {
        return;
    }
    let o = obs::obs_locale(&a.loc);
    let base = values::Parts { lang: o.id.language.clone().unwrap_or("und".into()), script: o.id.script.clone(), region: o.id.region.clone(), variants: o.id.variants.clone(), ext: if a.e_s.is_empty() { None } else { Some(a.e_s.clone()) } };
    let mut twins: Vec<values::Parts> = vec![];
    let vs = &o.id.variants;
    for i in 0..vs.len().saturating_sub(1) {
        if vs[i].len() < 8 && vs[i + 1].len() > 5 {
            let mut p = base.clone();
            p.variants[i] = format!("{}{}", vs[i], &vs[i + 1][..1]);
            p.variants[i + 1] = vs[i + 1][1..].to_string();
            twins.push(p);
        }
        if vs[i].len() > 5 && vs[i + 1].len() < 8 {
            let mut p = base.clone();
            p.variants[i] = vs[i][..vs[i].len() - 1].to_string();
            p.variants[i + 1] = format!("{}{}", &vs[i][vs[i].len() - 1..], vs[i + 1]);
            twins.push(p);
        }
    }
    // private tags (always last in the text): ...-x-ab-cde / ...-x-abc-de
    let tags = &o.private;
    if tags.len() >= 2 {
        if let Some(cut) = a.e_s.rfind("-x-") {
            for i in 0..tags.len() - 1 {
                if tags[i].len() < 8 && tags[i + 1].len() > 1 {
                    let mut t = tags.clone();
                    t[i] = format!("{}{}", tags[i], &tags[i + 1][..1]);
                    t[i + 1] = tags[i + 1][1..].to_string();
                    let mut p = base.clone();
                    p.ext = Some(format!("{}-x-{}", &a.e_s[..cut], t.join("-")));
                    twins.push(p);
                }
            }
        }
    }
    // near twins: the LAST character of the language / script / region / first variant changed (a
    // comparison key that keeps only the leading bytes of a subtag cannot tell them apart)
    let bump = |s: &str| -> String {
        let mut v = s.as_bytes().to_vec();
        if let Some(l) = v.last_mut() {
            *l = match *l {
                b'z' => b'y',
                b'Z' => b'Y',
                b'9' => b'8',
                c => c + 1,
            };
        }
        String::from_utf8_lossy(&v).to_string()
    };
    let mut near: Vec<values::Parts> = vec![];
    if base.lang != "und" && bump(&base.lang) != "und" {
        let mut p = base.clone();
        p.lang = bump(&base.lang);
        near.push(p);
    }
    if let Some(s) = &base.script {
        let mut p = base.clone();
        p.script = Some(bump(s));
        near.push(p);
    }
    if let Some(r) = &base.region {
        let mut p = base.clone();
        p.region = Some(bump(r));
        near.push(p);
    }
    if let Some(v) = base.variants.first() {
        let mut p = base.clone();
        p.variants[0] = bump(v);
        near.push(p);
    }
    for p in near {
        if let Ok(Some(loc)) = guard(|| values::build_parts(&p)) {
            let tw = item(loc, values::parts_case(&p));
            st.class("near twin (last character of one subtag changed)");
            check_pair(a, &tw, st, Count::No);
            check_pair(&tw, a, st, Count::No);
        }
    }
    for p in twins.into_iter().take(6) {
        let Ok(Some(loc)) = guard(|| values::build_parts(&p)) else {
            st.class("shift twin not accepted (skipped)");
            continue;
        };
        let tw = item(loc, values::parts_case(&p));
        st.class(if a.s.len() > 64 { "shift twin of a value printing more than 64 bytes" } else { "shift twin" });
        check_pair(a, &tw, st, Count::No);
        check_pair(&tw, a, st, Count::No);
    }
}

fn replay_consistency(case: &Value, st: &mut Stats) {
    if let Some(a) = values::value_from_case(&case["a"]) {
        let ia = item(a, case["a"].clone());
        consistency_pairs(&ia, st);
    }
}

pub fn run(cfg: &Cfg) -> Stats {
    // 1. collect values with their routes
    let bucket: Mutex<Vec<Item>> = Mutex::new(vec![]);
    let cap = cfg.pick(30_000usize, 400_000usize);
    let keep_mod = cfg.pick(8u64, 16u64);
    let mut collected = values::for_each_value(cfg, "c12", &|loc, case, st, _mode| {
        // keep a deterministic subset: decided by the hash of the case
        let hh = hash_str(&case.to_string());
        // the CLDR keys / values after maximize / minimize (16 000 x 3 values): each is compared with
        // the re-parse of its printed form right here, one in eight also joins the pools
        let likely_route = case["ops"].as_array().map_or(false, |o| !o.is_empty() && o.len() <= 2 && o.iter().all(|x| matches!(x["op"].as_str(), Some("Maximize") | Some("Minimize"))));
        if likely_route {
            let a = item(loc.clone(), case.clone());
            if let Ok(Ok(tw)) = guard(|| Locale::from_bytes(a.s.as_bytes())) {
                let twin = item(tw, bytes_case(a.s.as_bytes()));
                if twin.s == a.s {
                    st.class("twin: maximized / minimized CLDR key vs re-parse of its printed form");
                    check_pair(&a, &twin, st, Count::No);
                    check_pair(&twin, &a, st, Count::No);
                }
            }
        }
        // one case in 8 | 16 is kept (decided by its hash): the bucket is cut to `cap` by hash order below
        // anyway, and holding every value first cost 43 GB in the thorough tier (killed by the kernel)
        let keep = hh % keep_mod == 0 || !loc.extensions.other.is_empty();
        if keep {
            let mut b = bucket.lock().unwrap();
            b.push(item(loc.clone(), case.clone()));
        }
    });
    let mut items = bucket.into_inner().unwrap();
    // deterministic order irrespective of thread scheduling
    // (values with an other-extension first, so that the cap below never drops them)
    items.sort_by(|a, b| (a.loc.extensions.other.is_empty(), a.case_h, &a.case_s).cmp(&(b.loc.extensions.other.is_empty(), b.case_h, &b.case_s)));
    items.dedup_by(|a, b| a.case_s == b.case_s);
    items.truncate(cap);
    // 2. pools: sort by canonical string so that equal / near values are neighbours, then cut
    items.sort_by(|a, b| a.s.cmp(&b.s).then_with(|| a.case_s.cmp(&b.case_s)));
    let pool = cfg.pick(300usize, 1500usize);
    let mut total = Stats::new();
    total.extra.insert("values_collected".into(), json!(items.len()));
    total.extra.insert("sources".into(), json!(std::mem::take(&mut collected.exhaustive_subspaces)));
    // what the collector judged itself (the maximize / minimize twins) and the panics it netted
    total = total.merge(collected);
    let pools: Vec<&[Item]> = items.chunks(pool).collect();
    let npairs: u64 = pools.iter().map(|p| (p.len() * p.len()) as u64).sum();
    let s = pools
        .par_iter()
        .fold(Stats::new, |mut st, p| {
            for a in p.iter() {
                for b in p.iter() {
                    check_pair(a, b, &mut st, Count::Hash);
                }
            }
            // whole-pool sort comparison and transitivity on neighbours of the sorted pool
            let mut idx: Vec<usize> = (0..p.len()).collect();
            idx.sort_by(|x, y| p[*x].loc.cmp(&p[*y].loc));
            for w in idx.windows(3) {
                let (a, b, c) = (&p[w[0]].loc, &p[w[1]].loc, &p[w[2]].loc);
                st.eval();
                if a.cmp(b) == Ordering::Greater || b.cmp(c) == Ordering::Greater || a.cmp(c) == Ordering::Greater {
                    st.fail("locale:order-not-transitive", pair_case(&p[w[0]], &p[w[2]]), 10, format!("{} / {} / {}", p[w[0]].s, p[w[1]].s, p[w[2]].s));
                }
            }
            st
        })
        .reduce(Stats::new, Stats::merge);
    total = total.merge(s);
    total.subspace(&format!("all ordered pairs inside {} pools of <= {pool} values (sorted by canonical string)", pools.len()), npairs, true);
    // 2b. every value against the value parsed back from its own printed form: two values that
    // print the same string by construction (whatever route produced the first one)
    {
        let nn = items.len() as u64;
        let s = par_range(nn, |i, st| {
            let a = &items[i as usize];
            if let Ok(Ok(tw)) = guard(|| Locale::from_bytes(a.s.as_bytes())) {
                let twin = item(tw, bytes_case(a.s.as_bytes()));
                if twin.s == a.s {
                    st.class("twin: value vs re-parse of its printed form");
                    check_pair(a, &twin, st, Count::No);
                    check_pair(&twin, a, st, Count::No);
                }
            }
        });
        total = total.merge(s);
        total.subspace("every collected value paired with the re-parse of its printed form", nn, true);
    }
    // 2c. consistency among ==, hash and cmp alone (no statement about strings) for pairs the string
    // clause does not cover: a present-but-empty variant list built through the safe constructor
    // from_raw_parts_unchecked (which meets its documented expectation), and values whose public,
    // unsupported `other` extension field was filled by hand. Whatever == says about such a pair,
    // equal values must hash alike and compare Equal, and only equal values may compare Equal.
    {
        let nn = items.len() as u64;
        let s = par_range(nn, |i, st| consistency_pairs(&items[i as usize], st));
        total = total.merge(s);
        total.subspace("consistency of ==, hash and cmp for present-but-empty variant lists and hand-filled `other` fields (5 pairs per collected value)", nn * 5, true);
    }
    // 2d. boundary-shift twins (G32)
    {
        let nn = items.len() as u64;
        let s = par_range(nn, |i, st| shift_twins(&items[i as usize], st));
        total = total.merge(s);
        total.subspace("boundary-shift twins: every collected value against the values with one character moved between two adjacent variants / private tags (up to 6 per value)", nn, true);
    }
    // 3. cross-pool pairs: a strided sample so that far-apart values meet too
    let n = items.len();
    if n > 2 {
        let cross = cfg.pick(400_000u64, 4_000_000u64);
        let s = par_range(cross, |i, st| {
            let a = &items[(mix(i ^ cfg.seed) % n as u64) as usize];
            let b = &items[(mix(i.wrapping_mul(31) ^ cfg.seed ^ 0x55) % n as u64) as usize];
            check_pair(a, b, st, Count::Hash);
        });
        total = total.merge(s);
        total.subspace("seeded sample of pairs across pools", cross, false);
    }
    // 4. cold start (G28): ==, cmp, hash, the string and == &str as the first library calls of a fresh process
    let s = crate::props::cold::for_each_probe(cfg.pick(1_200, 6_000), "eq-first", &|a, b, obs, st| crate::props::cold::check_eq(a, b, obs, st, "eq-first"));
    total = total.merge(s);
    total
}

pub fn replay(case: &Value, st: &mut Stats) {
    if let Some((a, b, order)) = crate::props::cold::replay_pair(case) {
        if let Ok(obs) = crate::props::cold::probe(&a, &b, &order) {
            crate::props::cold::check_eq(&a, &b, &obs, st, &order);
        }
        return;
    }
    if case["kind"] == json!("consistency-pair") {
        replay_consistency(case, st);
        return;
    }
    let (Some(a), Some(b)) = (values::value_from_case(&case["a"]), values::value_from_case(&case["b"])) else { return };
    let ia = item(a, case["a"].clone());
    let ib = item(b, case["b"].clone());
    check_pair(&ia, &ib, st, Count::Hash);
}
