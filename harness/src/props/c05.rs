//! C05 — string round trip: parsing what was serialised gives back the same value.

use crate::obs;
use crate::run::*;
use crate::values::{self, case_size};
use serde_json::{json, Value};
use std::collections::hash_map::DefaultHasher;
use std::hash::{Hash, Hasher};
use std::str::FromStr;
use unic_locale::extensions::ExtensionsMap;
use unic_locale::subtags::{Language, Region, Script, Variant};
use unic_locale::{LanguageIdentifier, Locale};

pub const RULE: &str = "Domain: the reachable values of C04 (parsed from accepted inputs of the exhaustive token spaces / proptest grammar / CLDR corpus, Locale::from_parts over valid subtags, end states of mutation histories) for Locale, LanguageIdentifier (id and tlang), ExtensionsMap (its own Display incl. the leading '-' and the empty string) and every subtag they hold; plus exhaustive pools of subtags (all alpha{2}, alpha{3} languages; alpha{2}, digit{3} regions; alpha{4} scripts; digit+alnum{3} variants over a reduced alphabet). Oracle: T::from_str(&v.to_string()) == Ok(v) with the library's own ==, equal hash and cmp; canonicalize(canonicalize(s)) == canonicalize(s) for accepted inputs of both crates. Non-trivial = value with variants or extensions (tracked classes: tfields with u or x, variant without script/region, tlang with variants, private tag equal to a singleton letter, attribute 'true'); every pool subtag counts. Distinctness: enumerations by construction, the rest through a hash set.";

fn h<T: Hash>(t: &T) -> u64 {
    let mut s = DefaultHasher::new();
    t.hash(&mut s);
    s.finish()
}

pub fn check_value(loc: &Locale, case: &Value, st: &mut Stats, mode: Count) {
    netted(st, || case.clone(), crate::values::case_size(case), |st| check_value_inner(loc, case, st, mode));
}

fn check_value_inner(loc: &Locale, case: &Value, st: &mut Stats, mode: Count) {
    st.eval();
    let size = case_size(case);
    let o = obs::obs_locale(loc);
    if !o.id.variants.is_empty() || o.has_ext() {
        st.count(mode, hash_str(&case.to_string()), || case.clone());
        if !o.tfields.is_empty() && (!o.attrs.is_empty() || !o.keywords.is_empty() || !o.private.is_empty()) {
            st.class("key:tfields-and-(u-or-x)");
        }
        if !o.id.variants.is_empty() && o.id.script.is_none() {
            st.class("key:variant-without-script");
        }
        if !o.id.variants.is_empty() && o.id.region.is_none() {
            st.class("key:variant-without-region");
        }
        if o.tlang.as_ref().map_or(false, |t| !t.variants.is_empty()) {
            st.class("key:tlang-with-variants");
        }
        if o.private.iter().any(|t| t.len() == 1) {
            st.class("key:private-tag-is-a-singleton-letter");
        }
        if o.attrs.iter().any(|a| a == "true") {
            st.class("key:attribute-true");
        }
        if o.tfields.values().chain(o.keywords.values()).any(|v| v.is_empty()) {
            st.class("key:key-without-value");
        }
    }
    let s = loc.to_string();
    let shape = format!(
        "{}{}{}",
        if o.tlang.is_some() || !o.tfields.is_empty() { "t" } else { "" },
        if !o.attrs.is_empty() || !o.keywords.is_empty() { "u" } else { "" },
        if !o.private.is_empty() { "x" } else { "" }
    );
    match guard(|| Locale::from_str(&s)) {
        Err(p) => st.fail(panic_sig(&p), case.clone(), size, format!("parse({s:?}) panicked")),
        Ok(Err(e)) => st.fail(format!("locale-reparse-fails:ext={shape}"), case.clone(), size, format!("to_string() = {s:?} does not parse: {e:?}")),
        Ok(Ok(l2)) => {
            if l2 != *loc {
                st.fail(format!("locale-reparse-differs:ext={shape}"), case.clone(), size, format!("parse({s:?}) prints {:?}", l2.to_string()));
            } else if h(&l2) != h(loc) || l2.cmp(loc) != std::cmp::Ordering::Equal {
                st.fail("locale-reparse-hash-or-cmp", case.clone(), size, format!("{s:?}"));
            }
        }
    }
    let ids = loc.id.to_string();
    match guard(|| LanguageIdentifier::from_str(&ids)) {
        Ok(Ok(l2)) if l2 == loc.id && h(&l2) == h(&loc.id) => {}
        other => st.fail("langid-reparse", case.clone(), size, format!("id prints {ids:?}; re-parse gives {other:?}")),
    }
    let es = loc.extensions.to_string();
    match guard(|| ExtensionsMap::from_str(&es)) {
        Ok(Ok(e2)) if e2 == loc.extensions && h(&e2) == h(&loc.extensions) => {}
        other => st.fail(format!("extensionsmap-reparse:ext={shape}"), case.clone(), size, format!("extensions print {es:?}; re-parse gives {:?}", other.map(|r| r.map(|e| e.to_string())))),
    }
    if let Some(tl) = loc.extensions.transform.tlang() {
        let t = tl.to_string();
        match guard(|| LanguageIdentifier::from_str(&t)) {
            Ok(Ok(l2)) if l2 == *tl => {}
            other => st.fail("tlang-reparse", case.clone(), size, format!("tlang prints {t:?}; re-parse gives {other:?}")),
        }
    }
    let l = loc.id.language;
    if Language::from_str(&l.to_string()).ok() != Some(l) {
        st.fail("language-reparse", case.clone(), size, format!("{:?}", l.to_string()));
    }
    if let Some(x) = loc.id.script {
        if Script::from_str(&x.to_string()).ok() != Some(x) {
            st.fail("script-reparse", case.clone(), size, format!("{:?}", x.to_string()));
        }
    }
    if let Some(x) = loc.id.region {
        if Region::from_str(&x.to_string()).ok() != Some(x) {
            st.fail("region-reparse", case.clone(), size, format!("{:?}", x.to_string()));
        }
    }
    for v in loc.id.variants() {
        if Variant::from_str(&v.to_string()).ok() != Some(*v) {
            st.fail("variant-reparse", case.clone(), size, format!("{:?}", v.to_string()));
        }
    }
    if values::case_route(case) == "bytes" {
        if let Some(b) = case_bytes(case) {
            if let Ok(Ok(c1)) = guard(|| unic_locale::canonicalize(&b)) {
                match guard(|| unic_locale::canonicalize(&c1)) {
                    Ok(Ok(c2)) if c2 == c1 => {}
                    other => st.fail(format!("canonicalize-not-idempotent:ext={shape}"), case.clone(), size, format!("canonicalize = {c1:?}; again = {other:?}")),
                }
            }
            if let Ok(Ok(c1)) = guard(|| unic_langid::canonicalize(&b)) {
                match guard(|| unic_langid::canonicalize(&c1)) {
                    Ok(Ok(c2)) if c2 == c1 => {}
                    other => st.fail("langid-canonicalize-not-idempotent", case.clone(), size, format!("canonicalize = {c1:?}; again = {other:?}")),
                }
            }
        }
    }
}

fn subtag_pools(st: &mut Stats) {
    let case = |t: &str, kind: &str| json!({"kind": "subtag", "type": kind, "text": t});
    let az = |i: u64| (b'a' + (i % 26) as u8) as char;
    // languages: all alpha{2}, alpha{3}
    for i in 0..(26 * 26 + 26 * 26 * 26) as u64 {
        let t: String = if i < 676 { [az(i / 26), az(i)].iter().collect() } else { let j = i - 676; [az(j / 676), az(j / 26), az(j)].iter().collect() };
        st.eval();
        st.nontrivial_enum(hash_str(&t), || case(&t, "language"));
        match Language::from_str(&t) {
            Ok(l) => {
                if Language::from_str(&l.to_string()).ok() != Some(l) {
                    st.fail("pool:language-reparse", case(&t, "language"), t.len(), "round trip differs");
                }
            }
            Err(_) => st.fail("pool:language-rejected", case(&t, "language"), t.len(), "valid language rejected"),
        }
        if i < 676 {
            match Region::from_str(&t) {
                Ok(r) => {
                    if Region::from_str(&r.to_string()).ok() != Some(r) {
                        st.fail("pool:region-reparse", case(&t, "region"), t.len(), "round trip differs");
                    }
                }
                Err(_) => st.fail("pool:region-rejected", case(&t, "region"), t.len(), "valid region rejected"),
            }
        }
    }
    for i in 0..1000u32 {
        let t = format!("{i:03}");
        st.eval();
        st.nontrivial_enum(hash_str(&t), || case(&t, "region"));
        match Region::from_str(&t) {
            Ok(r) if Region::from_str(&r.to_string()).ok() == Some(r) => {}
            _ => st.fail("pool:region-digits", case(&t, "region"), 3, "round trip differs or rejected"),
        }
    }
    for i in 0..(26u64.pow(4)) {
        let t: String = [az(i / 17576), az(i / 676), az(i / 26), az(i)].iter().collect();
        st.eval();
        st.nontrivial_enum(hash_str(&t), || case(&t, "script"));
        match Script::from_str(&t) {
            Ok(r) if Script::from_str(&r.to_string()).ok() == Some(r) => {}
            _ => st.fail("pool:script", case(&t, "script"), 4, "round trip differs or rejected"),
        }
    }
    let al = b"az09m5";
    for i in 0..(10 * 6u64.pow(3)) {
        let t: String = [(b'0' + (i % 10) as u8) as char, al[(i / 10 % 6) as usize] as char, al[(i / 60 % 6) as usize] as char, al[(i / 360 % 6) as usize] as char].iter().collect();
        st.eval();
        st.nontrivial_enum(hash_str(&t), || case(&t, "variant"));
        match Variant::from_str(&t) {
            Ok(r) if Variant::from_str(&r.to_string()).ok() == Some(r) => {}
            _ => st.fail("pool:variant", case(&t, "variant"), 4, "round trip differs or rejected"),
        }
    }
    st.subspace("subtag pools: all alpha{2,3} languages, alpha{2}/digit{3} regions, alpha{4} scripts, digit+alnum{3} variants over a 6-symbol alphabet", 676 + 17576 + 1000 + 456976 + 2160, true);
}

pub fn run(cfg: &Cfg) -> Stats {
    let mut total = values::for_each_value(cfg, "c05", &check_value);
    subtag_pools(&mut total);
    total
}

pub fn replay(case: &Value, st: &mut Stats) {
    if case["kind"] == "subtag" {
        let mut s = Stats::new();
        subtag_pools(&mut s);
        for (k, f) in s.failures {
            st.failures.insert(k, f);
        }
        return;
    }
    if let Some(loc) = values::value_from_case(case) {
        check_value(&loc, case, st, Count::Hash);
    }
}
