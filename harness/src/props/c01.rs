//! C01 — every text-accepting API call is total: Ok or Err, never a panic, abort or hang.
//!
//! Cases run in child worker processes (this binary in `--worker` mode, RLIMIT_AS 2 GiB for workers, 1 GiB for single-case children):
//! a panic is caught in-process (hook + catch_unwind); an abort, stack overflow, OOM or hang
//! kills / stalls the worker, which the parent notices through the heartbeat protocol, then
//! locates the case (`--chunk`), confirms it twice in private children (`--one`) and
//! respawns the worker behind the suspect chunk so that the search continues.

use crate::gen;
use crate::model;
use crate::props::spaces::Space;
use crate::run::*;
use serde_json::{json, Value};
use std::convert::TryFrom;
use std::io::{BufRead, BufReader, Write};
use std::process::{Command, Stdio};
use std::str::FromStr;
use std::sync::{Arc, Mutex};
use std::time::{Duration, Instant};
use unic_locale::extensions::{ExtensionType, ExtensionsMap};
use unic_locale::subtags::{Language, Region, Script, Variant};
use unic_locale::{LanguageIdentifier, Locale};

pub const RULE: &str = "Domain: the C03 byte-string space (bounded-exhaustive token sequences over the full boundary alphabet to 3 | 4 subtags, 'en-' + locale alphabet to 4 | 5, 'en-' + core alphabet to 6 | 7; proptest G2 well-formed locales, G3 near misses, G4 weighted raw bytes; G11 long and huge locales with 20-150 entries per list; G5 CLDR names with extension suffixes), each input fed to every text-accepting entry point of both crates (parsers, canonicalize, subtag constructors, ExtensionsMap, ==&str, every extension getter/setter with the whole input and with each of its subtags as key/value/attribute/tag on an empty, a populated and the parsed extension list, serde_json when built with serde), Display/Debug of every result forced; megabyte-scale inputs for the bounded-time clause; all 256 bytes through ExtensionType::from_byte; and (language, script, region) triples over the CLDR subtag universe plus unknown representatives through likelysubtags::maximize/minimize and character_direction (stratified | exhaustive). Oracle: no panic (hook records file:line), no worker death, heartbeat keeps advancing. Non-trivial = the input is not a plain well-formed language identifier (an error path or an extension path is exercised); for triples: at least one component present. Enumerated cases distinct by construction; generated ones counted through a hash set.";

const CHUNK: u64 = 4096;

#[derive(Clone)]
pub enum Kind {
    Enum { alpha: Vec<Vec<u8>>, depth: u32, sep: u8, prefix: Vec<u8> },
    Ast,
    NearMiss,
    Raw,
    /// G11: long locales (many variants / keywords / private tags) and huge ones (20-150 entries per list)
    Long,
    Huge,
    List(Vec<Vec<u8>>),
}

#[derive(Clone)]
pub struct Phase {
    pub name: String,
    pub kind: Kind,
    pub n: u64,
}

pub fn phases(cfg: &Cfg) -> Vec<Phase> {
    let mut v = vec![];
    let full = gen::full_alphabet();
    let loc = gen::locale_alphabet();
    let core = gen::core_alphabet();
    let mut en = |name: String, alpha: &Vec<Vec<u8>>, depth: u32, sep: u8, prefix: &[u8]| {
        v.push(Phase {
            name,
            n: gen::pow(alpha.len(), depth),
            kind: Kind::Enum { alpha: alpha.clone(), depth, sep, prefix: prefix.to_vec() },
        });
    };
    for k in 1..=cfg.pick(3, 4) {
        en(format!("full boundary alphabet ({} tokens), {k} subtags", full.len()), &full, k, b'-', b"");
    }
    for k in 1..=cfg.pick(4, 5) {
        en(format!("'en-' + locale alphabet ({} tokens), {k} subtags", loc.len()), &loc, k, b'-', b"en-");
    }
    for k in 4..=cfg.pick(4, 5) {
        en(format!("locale alphabet ({} tokens), {k} subtags, no prefix", loc.len()), &loc, k, b'-', b"");
    }
    for k in 5..=cfg.pick(6, 7) {
        en(format!("'en-' + core alphabet ({} tokens), {k} subtags", core.len()), &core, k, b'-', b"en-");
    }
    en("'en_' + core alphabet, 4 subtags, '_' separators".into(), &core, 4, b'_', b"en_");
    let n = cfg.pick(300_000, 5_000_000);
    v.push(Phase { name: "G2 well-formed locales (proptest)".into(), kind: Kind::Ast, n });
    v.push(Phase { name: "G3 near-miss mutations of well-formed locales (proptest)".into(), kind: Kind::NearMiss, n });
    v.push(Phase { name: "G4 weighted raw bytes (proptest)".into(), kind: Kind::Raw, n: cfg.pick(200_000, 3_000_000) });
    v.push(Phase { name: "G11 long locales: many variants, keywords, private tags (proptest)".into(), kind: Kind::Long, n: cfg.pick(30_000, 500_000) });
    v.push(Phase { name: "G11 huge locales: 20-150 attributes / keywords / tfields / private tags (sorting and searching beyond the small-list paths; proptest)".into(), kind: Kind::Huge, n: cfg.pick(6_000, 100_000) });
    let c = gen::corpus(&cfg.repo);
    let mut all: Vec<Vec<u8>> = vec![];
    for n in c.locale_names.iter().chain(c.likely_keys.iter().step_by(8)) {
        for suf in gen::EXT_SUFFIXES {
            all.push(format!("{n}{suf}").into_bytes());
        }
    }
    all.sort();
    all.dedup();
    v.push(Phase { name: "G5 CLDR names x extension suffixes".into(), n: all.len() as u64, kind: Kind::List(all) });
    v
}

struct Strats {
    ast: proptest::strategy::SBoxedStrategy<gen::Ast>,
    near: proptest::strategy::SBoxedStrategy<Vec<u8>>,
    raw: proptest::strategy::SBoxedStrategy<Vec<u8>>,
    long: proptest::strategy::SBoxedStrategy<Vec<u8>>,
    huge: proptest::strategy::SBoxedStrategy<Vec<u8>>,
}

fn strats() -> Strats {
    Strats { ast: gen::s_ast(), near: gen::s_near_miss(), raw: gen::s_raw(), long: gen::s_locale_long_bytes(), huge: gen::s_locale_huge_bytes() }
}

fn phase_case(ph: &Phase, pi: usize, idx: u64, seed: u64, s: &Strats) -> Option<Vec<u8>> {
    match &ph.kind {
        Kind::Enum { alpha, depth, sep, prefix } => {
            let mut seq = vec![];
            gen::nth_seq(alpha, *depth, idx, *sep, &mut seq);
            let mut b = prefix.clone();
            b.extend_from_slice(&seq);
            Some(b)
        }
        Kind::Ast => gen_case(&s.ast, seed, salt("c01-g2") ^ pi as u64, idx).map(|a| a.render()),
        Kind::NearMiss => gen_case(&s.near, seed, salt("c01-g3") ^ pi as u64, idx),
        Kind::Raw => gen_case(&s.raw, seed, salt("c01-g4") ^ pi as u64, idx),
        Kind::Long => gen_case(&s.long, seed, salt("c01-g11l") ^ pi as u64, idx),
        Kind::Huge => gen_case(&s.huge, seed, salt("c01-g11h") ^ pi as u64, idx),
        Kind::List(l) => l.get(idx as usize).cloned(),
    }
}

// ------------------------------------------------------------------------------------------
// the oracle: exercise every text-accepting entry point under guard

macro_rules! call {
    ($st:expr, $b:expr, $name:expr, $e:expr) => {
        match guard(|| {
            let r = $e;
            let _ = format!("{:?}", r);
            r
        }) {
            Ok(r) => Some(r),
            Err(p) => {
                $st.fail(
                    format!("{}", panic_sig(&p)),
                    bytes_case($b),
                    $b.len(),
                    format!("{} panicked at {}:{}: {}", $name, p.file, p.line, p.msg),
                );
                None
            }
        }
    };
}

fn ext_states(b: &[u8]) -> Vec<ExtensionsMap> {
    let mut v = vec![ExtensionsMap::default()];
    if let Ok(Ok(l)) = guard(|| Locale::from_bytes(b"en-t-en-us-h0-hybrid-k0-abc-u-attr-foo-ca-buddhist-nu-thai-x-priv-a")) {
        v.push(l.extensions);
    }
    if let Ok(Ok(l)) = guard(|| Locale::from_bytes(b)) {
        if !l.extensions.is_empty() {
            v.push(l.extensions);
        }
    }
    v
}

pub fn exercise(b: &[u8], st: &mut Stats, mode: Count) {
    st.eval();
    let plain_langid = model::ref_langid(b).is_ok();
    if !plain_langid {
        st.count(mode, hash_bytes(b), || bytes_case(b));
        if std::str::from_utf8(b).is_err() {
            st.class("non-utf8");
        }
        if b.contains(&0) {
            st.class("contains-NUL");
        }
        let toks = model::split(b);
        if toks.iter().any(|t| t.is_empty()) {
            st.class("empty-subtag");
        }
        if toks.iter().any(|t| t.len() > 8) {
            st.class("over-long-subtag");
        }
        if toks.iter().skip(1).any(|t| t.len() == 1 && !matches!(t[0].to_ascii_lowercase(), b't' | b'u' | b'x')) {
            st.class("foreign-singleton");
        }
        if b.iter().any(|c| !model::is_alnum(*c) && *c != b'-' && *c != b'_') {
            st.class("non-alphanumeric-byte");
        }
    } else {
        st.class("plain-langid");
    }
    let s = std::str::from_utf8(b).ok();

    // language identifier side
    if let Some(Ok(li)) = call!(st, b, "LanguageIdentifier::from_bytes", LanguageIdentifier::from_bytes(b)) {
        call!(st, b, "LanguageIdentifier Display", li.to_string());
        call!(st, b, "LanguageIdentifier::character_direction", li.character_direction());
        #[cfg(feature = "likely")]
        {
            let mut m = li.clone();
            call!(st, b, "LanguageIdentifier::maximize", m.maximize());
            call!(st, b, "LanguageIdentifier::minimize", m.minimize());
        }
    } else if let Ok(Err(e)) = guard(|| LanguageIdentifier::from_bytes(b)) {
        call!(st, b, "LanguageIdentifierError Display", e.to_string());
    }
    call!(st, b, "unic_langid::canonicalize", unic_langid::canonicalize(b));
    call!(st, b, "parse_language_identifier", unic_langid::parser::parse_language_identifier(b).map_err(|e| e.to_string()));
    call!(st, b, "Language::from_bytes", Language::from_bytes(b).map_err(|e| e.to_string()));
    call!(st, b, "Script::from_bytes", Script::from_bytes(b).map_err(|e| e.to_string()));
    call!(st, b, "Region::from_bytes", Region::from_bytes(b).map_err(|e| e.to_string()));
    call!(st, b, "Variant::from_bytes", Variant::from_bytes(b).map_err(|e| e.to_string()));
    call!(st, b, "Language::try_from(Some)", Language::try_from(Some(b)));
    if let Some(s) = s {
        call!(st, b, "LanguageIdentifier::from_str", LanguageIdentifier::from_str(s));
        call!(st, b, "Language::from_str", Language::from_str(s));
        call!(st, b, "Script::from_str", Script::from_str(s));
        call!(st, b, "Region::from_str", Region::from_str(s));
        call!(st, b, "Variant::from_str", Variant::from_str(s));
        let probe = LanguageIdentifier::default();
        call!(st, b, "LanguageIdentifier == &str", probe == s);
        call!(st, b, "Language == &str", probe.language == s);
        #[cfg(feature = "serde")]
        {
            call!(st, b, "serde_json::from_str::<LanguageIdentifier>", serde_json::from_str::<LanguageIdentifier>(s).map_err(|e| e.to_string()));
            let quoted = serde_json::to_string(s).unwrap_or_default();
            call!(st, b, "serde_json::from_str::<LanguageIdentifier>(quoted)", serde_json::from_str::<LanguageIdentifier>(&quoted).map_err(|e| e.to_string()));
        }
    }
    #[cfg(feature = "serde")]
    {
        call!(st, b, "serde_json::from_slice::<LanguageIdentifier>", serde_json::from_slice::<LanguageIdentifier>(b).map_err(|e| e.to_string()));
        // serde's in-memory byte / string deserialisers (what binary formats hand to a visitor)
        use serde::de::value::{BorrowedBytesDeserializer, BytesDeserializer, Error as VE};
        use serde::Deserialize;
        call!(st, b, "Deserialize from BytesDeserializer", LanguageIdentifier::deserialize(BytesDeserializer::<VE>::new(b)).map_err(|e| e.to_string()));
        call!(st, b, "Deserialize from BorrowedBytesDeserializer", LanguageIdentifier::deserialize(BorrowedBytesDeserializer::<VE>::new(b)).map_err(|e| e.to_string()));
    }
    // == &str against texts of the SAME byte length as the canonical form in which two ASCII
    // bytes are replaced by one two-byte character (a comparison that walks the text chunk-wise
    // must not cut inside a character)
    if let Ok(Ok(li)) = guard(|| LanguageIdentifier::from_bytes(b)) {
        let canon = li.to_string();
        if canon.len() <= 40 {
            for i in 0..canon.len().saturating_sub(1) {
                let probe = format!("{}\u{e9}{}", &canon[..i], &canon[i + 2..]);
                call!(st, b, "LanguageIdentifier == same-length non-ASCII text", li == probe.as_str());
                if let Ok(Ok(loc)) = guard(|| Locale::from_bytes(b)) {
                    call!(st, b, "Locale.id == same-length non-ASCII text", loc.id == probe.as_str());
                }
            }
            for v in li.variants() {
                let t = v.as_str();
                let probe = format!("{}\u{e9}", &t[..t.len() - 2]);
                call!(st, b, "Variant == same-length non-ASCII text", *v == probe.as_str());
            }
            let l = li.language;
            if l.as_str().len() >= 2 {
                let probe = format!("{}\u{e9}", &l.as_str()[..l.as_str().len() - 2]);
                call!(st, b, "Language == same-length non-ASCII text", l == probe.as_str());
            }
        }
    }

    // locale side
    if let Some(r) = call!(st, b, "Locale::from_bytes", Locale::from_bytes(b)) {
        match r {
            Ok(l) => {
                call!(st, b, "Locale Display", l.to_string());
                call!(st, b, "Locale::character_direction", l.id.character_direction());
                call!(st, b, "Locale::into_parts", l.clone().into_parts());
            }
            Err(e) => {
                call!(st, b, "LocaleError Display", e.to_string());
            }
        }
    }
    call!(st, b, "unic_locale::canonicalize", unic_locale::canonicalize(b));
    call!(st, b, "parse_locale", unic_locale::parser::parse_locale(b).map_err(|e| e.to_string()));
    call!(st, b, "ExtensionsMap::from_bytes", ExtensionsMap::from_bytes(b).map_err(|e| e.to_string()));
    {
        let mut d = vec![b'-'];
        d.extend_from_slice(b);
        call!(st, b, "ExtensionsMap::from_bytes('-'+input)", ExtensionsMap::from_bytes(&d).map_err(|e| e.to_string()));
    }
    if let Some(s) = s {
        call!(st, b, "Locale::from_str", Locale::from_str(s));
        call!(st, b, "ExtensionsMap::from_str", ExtensionsMap::from_str(s).map_err(|e| e.to_string()));
    }

    // getters / setters with the whole input and with each subtag
    let mut args: Vec<&[u8]> = vec![b];
    let toks = model::split(b);
    if toks.len() > 1 {
        for t in toks.iter().take(6) {
            args.push(t);
        }
    }
    let states = ext_states(b);
    for a in args {
        for base in &states {
            let mut e = base.clone();
            call!(st, b, "unicode.keyword", e.unicode.keyword(a).map(|i| i.map(|s| s.to_string()).collect::<Vec<_>>()));
            call!(st, b, "unicode.set_keyword(k,[v])", e.unicode.set_keyword(a, &[a]));
            call!(st, b, "unicode.set_keyword(ca,[v,v])", e.unicode.set_keyword(&b"ca"[..], &[a, a]));
            call!(st, b, "unicode.remove_keyword", e.unicode.remove_keyword(a));
            call!(st, b, "unicode.has_attribute", e.unicode.has_attribute(a));
            call!(st, b, "unicode.set_attribute", e.unicode.set_attribute(a));
            call!(st, b, "unicode.remove_attribute", e.unicode.remove_attribute(a));
            call!(st, b, "transform.tfield", e.transform.tfield(a).map(|i| i.map(|s| s.to_string()).collect::<Vec<_>>()));
            call!(st, b, "transform.set_tfield(k,[v])", e.transform.set_tfield(a, &[a]));
            call!(st, b, "transform.set_tfield(h0,[v,v])", e.transform.set_tfield(&b"h0"[..], &[a, a]));
            call!(st, b, "transform.remove_tfield", e.transform.remove_tfield(a));
            call!(st, b, "private.has_tag", e.private.has_tag(a));
            call!(st, b, "private.add_tag", e.private.add_tag(a));
            call!(st, b, "private.remove_tag", e.private.remove_tag(a));
            call!(st, b, "ExtensionsMap Display", e.to_string());
        }
    }
}

fn fixed_bytes(st: &mut Stats) {
    for c in 0..=255u8 {
        st.eval();
        let b = [c];
        call!(st, &b[..], "ExtensionType::from_byte", ExtensionType::from_byte(c).map(|t| t.to_string()).map_err(|e| e.to_string()));
    }
    st.subspace("ExtensionType::from_byte, all 256 bytes", 256, true);
}

// ------------------------------------------------------------------------------------------
// Stats <-> files (worker -> parent)

pub fn stats_to_json(st: &Stats) -> Value {
    json!({
        "evals": st.evals,
        "nt_enum": st.nt_enum,
        "nt_overflow": st.nt_overflow,
        "classes": st.classes,
        "samples": st.samples.iter().map(|(h, v)| json!([h.to_string(), v])).collect::<Vec<_>>(),
        "failures": st.failures.values().map(|f| json!({"sig": f.sig, "case": f.case, "detail": f.detail, "size": f.size})).collect::<Vec<_>>(),
        "fail_counts": st.fail_counts,
        "fail_total": st.fail_total,
        "oracle_errors": st.oracle_errors,
    })
}

pub fn stats_from_json(v: &Value, hashes: &[u8]) -> Stats {
    let mut st = Stats::new();
    st.evals = v["evals"].as_u64().unwrap_or(0);
    st.nt_enum = v["nt_enum"].as_u64().unwrap_or(0);
    st.nt_overflow = v["nt_overflow"].as_u64().unwrap_or(0);
    st.fail_total = v["fail_total"].as_u64().unwrap_or(0);
    if let Some(o) = v["classes"].as_object() {
        for (k, n) in o {
            st.classes.insert(k.clone(), n.as_u64().unwrap_or(0));
        }
    }
    if let Some(a) = v["samples"].as_array() {
        for e in a {
            if let Some(h) = e[0].as_str().and_then(|s| s.parse::<u64>().ok()) {
                st.samples.insert(h, e[1].clone());
            }
        }
    }
    if let Some(a) = v["failures"].as_array() {
        for f in a {
            let sig = f["sig"].as_str().unwrap_or("").to_string();
            st.failures.insert(
                sig.clone(),
                Failure { sig, case: f["case"].clone(), detail: f["detail"].as_str().unwrap_or("").to_string(), size: f["size"].as_u64().unwrap_or(0) as usize },
            );
        }
    }
    if let Some(o) = v["fail_counts"].as_object() {
        for (k, n) in o {
            st.fail_counts.insert(k.clone(), n.as_u64().unwrap_or(0));
        }
    }
    if let Some(a) = v["oracle_errors"].as_array() {
        for e in a {
            st.oracle_errors.push(e.as_str().unwrap_or("").to_string());
        }
    }
    for c in hashes.chunks_exact(8) {
        st.nt_hashes.insert(u64::from_le_bytes(c.try_into().unwrap()));
    }
    st
}

fn workdir(cfg: &Cfg) -> std::path::PathBuf {
    if cfg!(debug_assertions) {
        let d = cfg.verif.join("target").join("c01-work-dbg");
        let _ = std::fs::create_dir_all(&d);
        return d;
    }
    let d = cfg.verif.join("target").join("c01");
    let _ = std::fs::create_dir_all(&d);
    d
}

fn limit_memory(gib: u64) {
    unsafe {
        let lim = libc::rlimit { rlim_cur: gib << 30, rlim_max: gib << 30 };
        libc::setrlimit(libc::RLIMIT_AS, &lim);
    }
}

// ------------------------------------------------------------------------------------------
// worker modes (children)

/// `vcheck C01 --worker k K from_phase from_chunk`
pub fn worker(cfg: &Cfg, args: &[String]) -> i32 {
    limit_memory(2);
    let k: u64 = args[0].parse().unwrap();
    let kk: u64 = args[1].parse().unwrap();
    let from_p: usize = args[2].parse().unwrap();
    let from_c: u64 = args[3].parse().unwrap();
    let skip: Vec<(usize, u64)> = args
        .get(4)
        .map(|s| {
            s.split(',')
                .filter_map(|e| {
                    let mut it = e.split(':');
                    Some((it.next()?.parse().ok()?, it.next()?.parse().ok()?))
                })
                .collect()
        })
        .unwrap_or_default();
    let ph = phases(cfg);
    let s = strats();
    let mut st = Stats::new();
    // partial results from an earlier incarnation of this worker are kept by the parent
    let out = std::io::stdout();
    let mut spaces: Vec<Space> = vec![];
    for (pi, p) in ph.iter().enumerate() {
        let nchunks = p.n.div_ceil(CHUNK);
        if pi >= from_p {
            for c in 0..nchunks {
                if c % kk != k {
                    continue;
                }
                if pi == from_p && c < from_c {
                    continue;
                }
                if skip.contains(&(pi, c)) {
                    continue;
                }
                {
                    let mut o = out.lock();
                    let _ = writeln!(o, "H {pi} {c}");
                    let _ = o.flush();
                }
                let lo = c * CHUNK;
                let hi = (lo + CHUNK).min(p.n);
                for i in lo..hi {
                    // every panic is already a recorded failure here; a worker that has caught its
                    // share stops exercising (a panic on every input would take the run past the cap)
                    if over_panic_budget() {
                        st.class_n("cases not run: library-panic budget used up", hi - i);
                        break;
                    }
                    let Some(b) = phase_case(p, pi, i, cfg.seed, &s) else { continue };
                    let dup = spaces.iter().any(|sp| sp.contains(&b));
                    let mode = if dup {
                        Count::No
                    } else if matches!(p.kind, Kind::Enum { .. }) {
                        Count::Enum
                    } else {
                        Count::Hash
                    };
                    exercise(&b, &mut st, mode);
                }
                // checkpoint now and then; the parent restarts a dead worker behind its last
                // checkpoint (skipping the suspect chunk), so nothing is lost or counted twice
                if (c / kk) % 64 == 63 {
                    checkpoint(cfg, k, &st);
                    let mut o = out.lock();
                    let _ = writeln!(o, "K {pi} {c}");
                    let _ = o.flush();
                }
            }
        }
        if let Kind::Enum { alpha, depth, sep, prefix } = &p.kind {
            spaces.push(Space::new(prefix, *sep, alpha, *depth));
        }
    }
    checkpoint(cfg, k, &st);
    let mut o = out.lock();
    let _ = writeln!(o, "D");
    let _ = o.flush();
    0
}

fn checkpoint(cfg: &Cfg, k: u64, st: &Stats) {
    let d = workdir(cfg);
    let tmp = d.join(format!("w{k}.json.tmp"));
    let _ = std::fs::write(&tmp, stats_to_json(st).to_string());
    let _ = std::fs::rename(&tmp, d.join(format!("w{k}.json")));
    let mut hb: Vec<u8> = Vec::with_capacity(st.nt_hashes.len() * 8);
    for h in &st.nt_hashes {
        hb.extend_from_slice(&h.to_le_bytes());
    }
    let tmp = d.join(format!("w{k}.bin.tmp"));
    let _ = std::fs::write(&tmp, hb);
    let _ = std::fs::rename(&tmp, d.join(format!("w{k}.bin")));
}

/// `vcheck C01 --chunk p c`: run one chunk printing the index before each case
pub fn chunk_mode(cfg: &Cfg, args: &[String]) -> i32 {
    limit_memory(1);
    let pi: usize = args[0].parse().unwrap();
    let c: u64 = args[1].parse().unwrap();
    let ph = phases(cfg);
    let s = strats();
    let p = &ph[pi];
    let out = std::io::stdout();
    let mut st = Stats::new();
    for i in (c * CHUNK)..((c + 1) * CHUNK).min(p.n) {
        {
            let mut o = out.lock();
            let _ = writeln!(o, "C {i}");
            let _ = o.flush();
        }
        if let Some(b) = phase_case(p, pi, i, cfg.seed, &s) {
            exercise(&b, &mut st, Count::No);
        }
    }
    let mut o = out.lock();
    let _ = writeln!(o, "D");
    0
}

/// `vcheck C01 --one <hex>`: run one input
pub fn one_mode(_cfg: &Cfg, args: &[String]) -> i32 {
    limit_memory(1);
    let b = unhex(&args[0]);
    let mut st = Stats::new();
    exercise(&b, &mut st, Count::No);
    if st.failures.is_empty() {
        0
    } else {
        for f in st.failures.values() {
            println!("F {}", json!({"sig": f.sig, "detail": f.detail}));
        }
        3
    }
}

/// `vcheck C01 --long <n>`: megabyte-scale inputs
pub fn long_mode(_cfg: &Cfg, args: &[String]) -> i32 {
    limit_memory(1);
    let which: usize = args[0].parse().unwrap();
    let b = long_input(which);
    let mut st = Stats::new();
    // the whole-input calls only (the per-subtag setter loop of `exercise` is for short inputs)
    call!(st, &b[..0], "LanguageIdentifier::from_bytes(long)", LanguageIdentifier::from_bytes(&b).map(|l| l.to_string().len()));
    call!(st, &b[..0], "Locale::from_bytes(long)", Locale::from_bytes(&b).map(|l| l.to_string().len()));
    call!(st, &b[..0], "ExtensionsMap::from_bytes(long)", ExtensionsMap::from_bytes(&b).map(|l| l.to_string().len()).map_err(|e| e.to_string()));
    call!(st, &b[..0], "unic_locale::canonicalize(long)", unic_locale::canonicalize(&b).map(|l| l.len()));
    call!(st, &b[..0], "Variant::from_bytes(long)", Variant::from_bytes(&b).map_err(|e| e.to_string()));
    let mut e = ExtensionsMap::default();
    call!(st, &b[..0], "set_keyword(long)", e.unicode.set_keyword(&b[..], &[&b[..]]));
    call!(st, &b[..0], "add_tag(long)", e.private.add_tag(&b[..]));
    if st.failures.is_empty() {
        0
    } else {
        for f in st.failures.values() {
            println!("F {}", json!({"sig": f.sig, "detail": f.detail}));
        }
        3
    }
}

pub const LONG_NAMES: &[&str] = &[
    "1 MiB of 'a-'",
    "64 KiB single subtag",
    "100000 empty subtags",
    "en + 100000 x '-valencia'",
    "en-x + 100000 tags",
    "en-u + 100000 attributes + 20000 keywords",
    "en-t-en + 20000 tfields",
    "1 MiB of 0xff",
    "en-u + 400000 keywords (two alternating keys)",
    "en-u + 400000 keywords (676 keys, three types each)",
    "en-t-und + 400000 tfields",
    "en + 300000 distinct variants + -u-ca",
    "en-u + 400000 attributes then -t- + -x- with 200000 tags",
    "en-t-en + 200000 x '-latn' (repeated tlang-shaped subtags)",
];

fn long_input(which: usize) -> Vec<u8> {
    match which {
        0 => b"a-".repeat(512 * 1024),
        1 => vec![b'a'; 64 * 1024],
        2 => vec![b'-'; 100_000],
        3 => {
            let mut v = b"en".to_vec();
            for _ in 0..100_000 {
                v.extend_from_slice(b"-valencia");
            }
            v
        }
        4 => {
            let mut v = b"en-x".to_vec();
            for i in 0..100_000u32 {
                v.extend_from_slice(format!("-t{:05}", i % 77777).as_bytes());
            }
            v
        }
        5 => {
            let mut v = b"en-u".to_vec();
            for i in 0..100_000u32 {
                v.extend_from_slice(format!("-a{:05}", i % 50000).as_bytes());
            }
            for i in 0..20_000u32 {
                let k = [b'a' + (i % 26) as u8, b'a' + ((i / 26) % 26) as u8];
                v.push(b'-');
                v.extend_from_slice(&k);
                v.extend_from_slice(b"-val");
            }
            v
        }
        6 => {
            let mut v = b"en-t-en".to_vec();
            for i in 0..20_000u32 {
                let k = [b'a' + (i % 26) as u8, b'0' + ((i / 26) % 10) as u8];
                v.push(b'-');
                v.extend_from_slice(&k);
                v.extend_from_slice(b"-val-val2");
            }
            v
        }
        7 => vec![0xff; 1 << 20],
        8 => {
            let mut v = b"en-u".to_vec();
            for _ in 0..200_000u32 {
                v.extend_from_slice(b"-ca-gregory-nu-latn");
            }
            v
        }
        9 => {
            let mut v = b"en-u".to_vec();
            for i in 0..400_000u32 {
                let k = [b'a' + (i % 26) as u8, b'a' + ((i / 26) % 26) as u8];
                v.push(b'-');
                v.extend_from_slice(&k);
                v.extend_from_slice(b"-val-val2-val3");
            }
            v
        }
        10 => {
            let mut v = b"en-t-und".to_vec();
            for i in 0..400_000u32 {
                let k = [b'a' + (i % 26) as u8, b'0' + ((i / 26) % 10) as u8];
                v.push(b'-');
                v.extend_from_slice(&k);
                v.extend_from_slice(b"-val");
            }
            v
        }
        11 => {
            let mut v = b"en".to_vec();
            for i in 0..300_000u32 {
                v.extend_from_slice(format!("-v{:06}", i).as_bytes());
            }
            v.extend_from_slice(b"-u-ca");
            v
        }
        12 => {
            let mut v = b"en-u".to_vec();
            for i in 0..400_000u32 {
                v.extend_from_slice(format!("-a{:06}", i).as_bytes());
            }
            v.extend_from_slice(b"-t-en-h0-hybrid-x");
            for i in 0..200_000u32 {
                v.extend_from_slice(format!("-p{:06}", i).as_bytes());
            }
            v
        }
        13 => {
            let mut v = b"en-t-en".to_vec();
            for _ in 0..200_000u32 {
                v.extend_from_slice(b"-latn");
            }
            v
        }
        _ => vec![0xff; 1 << 20],
    }
}

// ------------------------------------------------------------------------------------------
// parent

struct WState {
    last: Instant,
    phase: usize,
    chunk: u64,
    done: bool,
    ck: Option<(usize, u64)>,
}

enum Outcome {
    Done,
    /// how, suspect (phase, chunk), last checkpoint (phase, chunk)
    Died(String, usize, u64, Option<(usize, u64)>),
    Stalled(usize, u64, Option<(usize, u64)>),
}

pub fn self_exe() -> std::path::PathBuf {
    std::env::current_exe().unwrap()
}

fn spawn_worker(cfg: &Cfg, k: u64, kk: u64, from_p: usize, from_c: u64, skip: &str, stall: Duration) -> Outcome {
    let mut child = Command::new(self_exe())
        .args(["C01", "--worker", cfg.tier_name(), &k.to_string(), &kk.to_string(), &from_p.to_string(), &from_c.to_string(), skip])
        .env("VERIF_SEED", (cfg.seed as i64).to_string())
        .stdout(Stdio::piped())
        .stderr(Stdio::null())
        .spawn()
        .expect("spawn worker");
    let state = Arc::new(Mutex::new(WState { last: Instant::now(), phase: from_p, chunk: from_c, done: false, ck: None }));
    let out = child.stdout.take().unwrap();
    let st2 = state.clone();
    let reader = std::thread::spawn(move || {
        for line in BufReader::new(out).lines().map_while(Result::ok) {
            let mut s = st2.lock().unwrap();
            s.last = Instant::now();
            if line == "D" {
                s.done = true;
            } else if let Some(rest) = line.strip_prefix("H ") {
                let mut it = rest.split(' ');
                s.phase = it.next().and_then(|x| x.parse().ok()).unwrap_or(0);
                s.chunk = it.next().and_then(|x| x.parse().ok()).unwrap_or(0);
            } else if let Some(rest) = line.strip_prefix("K ") {
                let mut it = rest.split(' ');
                let p = it.next().and_then(|x| x.parse().ok()).unwrap_or(0);
                let c = it.next().and_then(|x| x.parse().ok()).unwrap_or(0);
                s.ck = Some((p, c));
            }
        }
    });
    loop {
        std::thread::sleep(Duration::from_millis(50));
        if let Ok(Some(status)) = child.try_wait() {
            let _ = reader.join();
            let s = state.lock().unwrap();
            if s.done && status.success() {
                return Outcome::Done;
            }
            use std::os::unix::process::ExitStatusExt;
            let how = match status.signal() {
                Some(sig) => format!("signal {sig}"),
                None => format!("exit status {:?}", status.code()),
            };
            return Outcome::Died(how, s.phase, s.chunk, s.ck);
        }
        let (last, p, c, ck) = {
            let s = state.lock().unwrap();
            (s.last, s.phase, s.chunk, s.ck)
        };
        if last.elapsed() > stall {
            let _ = child.kill();
            let _ = child.wait();
            let _ = reader.join();
            return Outcome::Stalled(p, c, ck);
        }
    }
}

/// run a child with a time limit; returns (how it ended, stdout lines)
fn run_limited(args: &[String], seed: u64, limit: Duration) -> (String, Vec<String>) {
    let mut child = Command::new(self_exe())
        .args(args)
        .env("VERIF_SEED", (seed as i64).to_string())
        .stdout(Stdio::piped())
        .stderr(Stdio::null())
        .spawn()
        .expect("spawn");
    let out = child.stdout.take().unwrap();
    let lines = Arc::new(Mutex::new((Vec::<String>::new(), Instant::now())));
    let l2 = lines.clone();
    let reader = std::thread::spawn(move || {
        for line in BufReader::new(out).lines().map_while(Result::ok) {
            let mut g = l2.lock().unwrap();
            g.0.push(line);
            g.1 = Instant::now();
        }
    });
    let how;
    loop {
        std::thread::sleep(Duration::from_millis(20));
        if let Ok(Some(status)) = child.try_wait() {
            use std::os::unix::process::ExitStatusExt;
            how = match (status.code(), status.signal()) {
                (Some(0), _) => "ok".to_string(),
                (Some(3), _) => "failures".to_string(),
                (Some(c), _) => format!("exit status {c}"),
                (None, Some(s)) => format!("signal {s}"),
                _ => "unknown".to_string(),
            };
            break;
        }
        let last = lines.lock().unwrap().1;
        if last.elapsed() > limit {
            let _ = child.kill();
            let _ = child.wait();
            how = "hang".to_string();
            break;
        }
    }
    let _ = reader.join();
    let v = lines.lock().unwrap().0.clone();
    (how, v)
}

/// locate and confirm the case of a suspect chunk; Some(failure) if confirmed twice
fn investigate(cfg: &Cfg, pi: usize, c: u64, total: &mut Stats, inconclusive: &mut Vec<String>) {
    let ph = phases(cfg);
    let s = strats();
    let (how, lines) = run_limited(
        &["C01".into(), "--chunk".into(), cfg.tier_name().into(), pi.to_string(), c.to_string()],
        cfg.seed,
        Duration::from_secs(10),
    );
    if how == "ok" {
        inconclusive.push(format!("worker died or stalled in phase {pi} chunk {c} but the chunk completed when re-run alone"));
        return;
    }
    let idx = lines.iter().rev().find_map(|l| l.strip_prefix("C ").and_then(|x| x.parse::<u64>().ok()));
    let Some(idx) = idx else {
        inconclusive.push(format!("chunk re-run ended with {how} before its first case"));
        return;
    };
    let Some(b) = phase_case(&ph[pi], pi, idx, cfg.seed, &s) else { return };
    confirm_one(cfg, &b, total, inconclusive);
}

fn confirm_one(cfg: &Cfg, b: &[u8], total: &mut Stats, inconclusive: &mut Vec<String>) {
    let mut outcomes = vec![];
    for _ in 0..2 {
        let (how, _) = run_limited(&["C01".into(), "--one".into(), cfg.tier_name().into(), hex(b)], cfg.seed, Duration::from_secs(10));
        outcomes.push(how);
    }
    if outcomes.iter().all(|h| h != "ok" && h != "failures") && outcomes[0] == outcomes[1] {
        let kind = if outcomes[0] == "hang" { "hang".to_string() } else { format!("process-death:{}", outcomes[0]) };
        total.fail(
            kind.clone(),
            bytes_case(b),
            b.len(),
            format!("a private child process running only this input ended twice with: {} (no result within 10 s counts as hang; a normal case takes microseconds)", outcomes[0]),
        );
    } else if outcomes.iter().any(|h| h != "ok" && h != "failures") {
        inconclusive.push(format!("input {:?} ended with {:?} in private children (not reproducible)", String::from_utf8_lossy(b), outcomes));
    }
}

/// everything for the build this binary is (release without / with debug assertions)
pub fn run_own(cfg: &Cfg) -> Stats {
    let d = workdir(cfg);
    let kk: u64 = 16;
    for k in 0..kk {
        let _ = std::fs::remove_file(d.join(format!("w{k}.json")));
        let _ = std::fs::remove_file(d.join(format!("w{k}.bin")));
    }
    let stall = Duration::from_secs(20);
    let results: Vec<(Vec<(String, usize, u64)>, Stats)> = std::thread::scope(|sc| {
        let hs: Vec<_> = (0..kk)
            .map(|k| {
                sc.spawn(move || {
                    let mut suspects: Vec<(String, usize, u64)> = vec![];
                    let mut acc = Stats::new();
                    let (mut fp, mut fc) = (0usize, 0u64);
                    let mut skip: Vec<String> = vec![];
                    for _round in 0..3 {
                        let o = spawn_worker(cfg, k, kk, fp, fc, &skip.join(","), stall);
                        // collect the (possibly partial) checkpoint of this incarnation
                        let js = std::fs::read_to_string(workdir(cfg).join(format!("w{k}.json"))).ok();
                        let hb = std::fs::read(workdir(cfg).join(format!("w{k}.bin"))).unwrap_or_default();
                        if let Some(js) = js {
                            if let Ok(v) = serde_json::from_str::<Value>(&js) {
                                acc = std::mem::take(&mut acc).merge(stats_from_json(&v, &hb));
                            }
                        }
                        let _ = std::fs::remove_file(workdir(cfg).join(format!("w{k}.json")));
                        let _ = std::fs::remove_file(workdir(cfg).join(format!("w{k}.bin")));
                        match o {
                            Outcome::Done => return (suspects, acc),
                            Outcome::Died(how, p, c, ck) => {
                                suspects.push((how, p, c));
                                skip.push(format!("{p}:{c}"));
                                if let Some((kp, kc)) = ck {
                                    fp = kp;
                                    fc = kc + 1;
                                }
                            }
                            Outcome::Stalled(p, c, ck) => {
                                suspects.push(("stalled".into(), p, c));
                                skip.push(format!("{p}:{c}"));
                                if let Some((kp, kc)) = ck {
                                    fp = kp;
                                    fc = kc + 1;
                                }
                            }
                        }
                    }
                    suspects.push(("gave-up".into(), usize::MAX, 0));
                    (suspects, acc)
                })
            })
            .collect();
        hs.into_iter().map(|h| h.join().unwrap()).collect()
    });
    let mut total = Stats::new();
    let mut inconclusive: Vec<String> = vec![];
    let mut suspects = vec![];
    for (s, st) in results {
        suspects.extend(s);
        total = total.merge(st);
    }
    let mut gave_up = 0;
    let mut investigated = 0;
    for (how, p, c) in &suspects {
        if *p == usize::MAX {
            gave_up += 1;
            continue;
        }
        total.class(&format!("worker-{how}"));
        // every suspect chunk was skipped so the search went on; locating the culprit costs
        // seconds per chunk, so only the first few are investigated once a failure is confirmed
        if investigated < 3 || (total.failures.is_empty() && investigated < 8) {
            investigated += 1;
            investigate(cfg, *p, *c, &mut total, &mut inconclusive);
        } else {
            total.class("suspect-chunk-not-investigated(cap)");
        }
    }
    if gave_up > 0 && total.failures.is_empty() {
        inconclusive.push(format!("{gave_up} worker(s) died 3 times and no culprit input could be confirmed"));
    }
    for p in phases(cfg) {
        total.subspace(&p.name, p.n, !matches!(p.kind, Kind::Ast | Kind::NearMiss | Kind::Raw | Kind::Long | Kind::Huge));
    }
    fixed_bytes(&mut total);
    // long inputs, each in its own child with a 60 s limit
    for (i, name) in LONG_NAMES.iter().enumerate() {
        total.eval();
        let (how, lines) = run_limited(&["C01".into(), "--long".into(), cfg.tier_name().into(), i.to_string()], cfg.seed, Duration::from_secs(60));
        let case = json!({"kind": "long", "which": i, "name": name});
        total.nontrivial(hash_str(name), || case.clone());
        match how.as_str() {
            "ok" => {}
            "failures" => {
                for l in lines {
                    if let Some(j) = l.strip_prefix("F ") {
                        if let Ok(v) = serde_json::from_str::<Value>(j) {
                            total.fail(v["sig"].as_str().unwrap_or("panic"), case.clone(), 0, v["detail"].as_str().unwrap_or(""));
                        }
                    }
                }
            }
            other => {
                // confirm once more before calling it a violation
                let (how2, _) = run_limited(&["C01".into(), "--long".into(), cfg.tier_name().into(), i.to_string()], cfg.seed, Duration::from_secs(60));
                if how2 == other {
                    total.fail(
                        format!("long-input:{}", if other == "hang" { "hang".to_string() } else { format!("process-death:{other}") }),
                        case.clone(),
                        0,
                        format!("{name}: child ended twice with {other} (limit 60 s without output; normally milliseconds)"),
                    );
                } else {
                    inconclusive.push(format!("long input {name}: {other} then {how2}"));
                }
            }
        }
    }
    total.subspace("megabyte-scale inputs (bounded-time clause)", LONG_NAMES.len() as u64, true);
    // triples
    #[cfg(feature = "likely")]
    {
        let s = crate::props::triples::run_c01(cfg);
        total = total.merge(s);
    }
    for m in inconclusive {
        total.oracle_error(format!("inconclusive: {m}"));
    }
    total
}

/// child mode of the debug-assertions build: run everything, print the statistics as one line
pub fn child_mode(cfg: &Cfg) -> i32 {
    let st = run_own(cfg);
    println!("STATS {}", stats_to_json(&st));
    0
}

pub const DBG_TAG: &str = "debug-assertions-build";

/// The main build has debug assertions and `debug_assert!` compiled out (overflow checks are on);
/// users' debug builds do not. The same source is therefore built once more with
/// `-C debug-assertions=on` (VERIF_BIN_DBG, built by ./check) and the whole totality run is
/// repeated there; its failures carry the tag in their signature and case.
pub fn run(cfg: &Cfg) -> Stats {
    let total = run_own(cfg);
    with_dbg_build(cfg, "C01", "--config-child", total)
}

/// Repeat the run of check `id` in the build with debug assertions on (VERIF_BIN_DBG) and merge
/// what it found: failures carry the tag in signature and case, classes are prefixed, the
/// non-trivial cases (the same inputs under another build) are reported but not added.
pub fn with_dbg_build(cfg: &Cfg, id: &str, flag: &str, mut total: Stats) -> Stats {
    if cfg!(debug_assertions) {
        return total;
    }
    let Ok(bin) = std::env::var("VERIF_BIN_DBG") else {
        total.oracle_error("VERIF_BIN_DBG is not set (the debug-assertions build of the harness is needed; ./check builds it)".into());
        return total;
    };
    let out = Command::new(&bin).args([id, flag, cfg.tier_name()]).env("VERIF_SEED", (cfg.seed as i64).to_string()).stderr(Stdio::null()).output();
    let parsed = out.ok().and_then(|o| {
        let text = String::from_utf8_lossy(&o.stdout).to_string();
        let line = text.lines().rev().find(|l| l.starts_with("STATS "))?.to_string();
        serde_json::from_str::<Value>(&line[6..]).ok()
    });
    match parsed {
        None => total.oracle_error(format!("the debug-assertions build ({bin}) printed no statistics")),
        Some(v) => {
            let mut o = stats_from_json(&v, &[]);
            // same inputs under another build: evaluations, classes and failures are merged,
            // non-trivial counts only reported
            let nt = o.nt_enum;
            o.nt_enum = 0;
            o.samples.clear();
            let classes = std::mem::take(&mut o.classes);
            for (k, n) in classes {
                o.classes.insert(format!("{DBG_TAG}: {k}"), n);
            }
            let fails = std::mem::take(&mut o.failures);
            let counts = std::mem::take(&mut o.fail_counts);
            for (sig, mut f) in fails {
                if total.failures.contains_key(&sig) {
                    // the main build reports the same signature: one root cause, one line
                    continue;
                }
                let nsig = format!("{DBG_TAG}:{sig}");
                f.sig = nsig.clone();
                if f.case.is_object() {
                    f.case["build"] = json!(DBG_TAG);
                }
                o.failures.insert(nsig, f);
            }
            for (sig, n) in counts {
                if total.failures.contains_key(&sig) {
                    continue;
                }
                o.fail_counts.insert(format!("{DBG_TAG}:{sig}"), n);
            }
            total.extra.insert("debug_assertions_build".into(), json!({"evaluations": o.evals, "nontrivial_counted_separately": nt}));
            total = total.merge(o);
        }
    }
    total
}

/// child side of `with_dbg_build` for the checks other than C01
pub fn dbg_child(st: &Stats) {
    println!("STATS {}", stats_to_json(st));
}

/// replay of a case that belongs to the debug-assertions build: hand it to that binary
pub fn replay_in_dbg_build(id: &str, case: &Value, st: &mut Stats) {
    let Ok(bin) = std::env::var("VERIF_BIN_DBG") else { return };
    let tmp = std::env::temp_dir().join(format!("{id}-replay-{}-{}.json", std::process::id(), hash_str(&case.to_string())));
    let mut c = case.clone();
    c.as_object_mut().map(|o| o.remove("build"));
    let _ = std::fs::write(&tmp, json!({"case": c}).to_string());
    if let Ok(out) = Command::new(bin).args([id, "--replay", &tmp.display().to_string()]).output() {
        let text = String::from_utf8_lossy(&out.stdout).to_string();
        if out.status.code() == Some(1) {
            let detail: String = text.lines().filter_map(|l| l.trim().strip_prefix("detail: ")).collect::<Vec<_>>().join(" / ");
            for sig in text.lines().filter_map(|l| l.trim().strip_prefix("signature: ")) {
                st.fail(format!("{DBG_TAG}:{sig}"), case.clone(), case_bytes(case).map_or(0, |b| b.len()), format!("in the build with debug assertions on: {detail}"));
            }
        }
    }
    let _ = std::fs::remove_file(&tmp);
}

pub fn replay(case: &Value, st: &mut Stats) {
    if case.get("build").and_then(|k| k.as_str()) == Some(DBG_TAG) && !cfg!(debug_assertions) {
        // the case belongs to the debug-assertions build
        replay_in_dbg_build("C01", case, st);
        return;
    }
    if case.get("kind").and_then(|k| k.as_str()) == Some("long") {
        let i = case["which"].as_u64().unwrap_or(0);
        let (how, lines) = run_limited(&["C01".into(), "--long".into(), "quick".into(), i.to_string()], 0, Duration::from_secs(60));
        match how.as_str() {
            "ok" => {}
            "failures" => {
                for l in lines {
                    if let Some(j) = l.strip_prefix("F ") {
                        if let Ok(v) = serde_json::from_str::<Value>(j) {
                            st.fail(v["sig"].as_str().unwrap_or("panic"), case.clone(), 0, v["detail"].as_str().unwrap_or(""));
                        }
                    }
                }
            }
            other => st.fail(
                format!("long-input:{}", if other == "hang" { "hang".to_string() } else { format!("process-death:{other}") }),
                case.clone(),
                0,
                format!("child ended with {other}"),
            ),
        }
        return;
    }
    if case.get("kind").and_then(|k| k.as_str()) == Some("triple") {
        #[cfg(feature = "likely")]
        crate::props::triples::replay_c01(case, st);
        return;
    }
    if let Some(b) = case_bytes(case) {
        // run in a private child first so that a crash or hang is observed, not suffered
        let (how, _) = run_limited(&["C01".into(), "--one".into(), "quick".into(), hex(&b)], 0, Duration::from_secs(10));
        match how.as_str() {
            "ok" => {}
            "failures" => exercise(&b, st, Count::No),
            "hang" => st.fail("hang", bytes_case(&b), b.len(), "no result within 10 s in a private child"),
            other => st.fail(format!("process-death:{other}"), bytes_case(&b), b.len(), format!("private child ended with {other}")),
        }
    }
}
