//! C15 — each subtag type accepts exactly its UTS #35 production and normalises case.

use crate::model;
use crate::run::*;
use serde_json::{json, Value};
use std::convert::TryFrom;
use std::str::FromStr;
use unic_locale::subtags::{Language, Region, Script, Variant};

pub const RULE: &str = "Domain: every byte string of length 0-3 (exhaustive, 16 843 009 strings; thorough: also every byte string of length 4, 2^32), every string of length 4-6 over a 24-byte boundary alphabet (exhaustive), lengths 6-9 over a 6-byte alphabet (exhaustive), every lower-case alphanumeric string of length 4 and lower-case letter string of length 5 (thorough: alphanumeric length 5; exhaustive), the special words of other standards in every letter case, every single-byte substitution (256 values x position) of valid subtags of every legal length, and weighted random bytes (proptest). Each string is fed to Language/Script/Region/Variant::from_bytes and compared with byte-level predicates written from the EBNF; on accept as_str/Display/==&str/FromStr must expose lower/Title/UPPER/lower text. Non-trivial = accepted by at least one type, or rejected although its length is one some type accepts and every byte is ASCII alphanumeric (class boundary). Enumerated cases are distinct by construction; random ones are counted through a hash set.";

pub const BOUNDARY: &[u8] = &[
    b'a', b'z', b'A', b'Z', b'm', b'0', b'9', b'5', b'@', b'[', b'`', b'{', b'/', b':', b'-', b'_', b'.', b' ',
    0x00, 0x7f, 0x80, 0xc3, 0xff, b'*',
];
pub const SMALL: &[u8] = &[b'a', b'Z', b'0', b'9', b'.', 0x80];

fn case_of(b: &[u8]) -> Value {
    bytes_case(b)
}

/// `== &str` must be false for every string that is not exactly the canonical text: padded
/// with NUL / space / a separator, truncated, or extended
fn near_text_probes<T>(l: &T, canon: &str, bad: &mut Vec<String>)
where
    T: for<'a> PartialEq<&'a str>,
{
    let mut probes: Vec<String> = vec![format!("{canon}\0"), format!("\0{canon}"), format!("{canon} "), format!(" {canon}"), format!("{canon}-"), format!("{canon}a"), format!("{canon}\0\0\0\0")];
    if canon.len() > 1 {
        probes.push(canon[..canon.len() - 1].to_string());
        probes.push(canon[1..].to_string());
    }
    probes.push(String::new());
    for p in probes {
        if p != canon && *l == p.as_str() {
            bad.push(format!("== {p:?} is true"));
        }
    }
}

/// `random` = Some(maxlen): the case does not come from an enumeration; it is counted as
/// non-trivial only if it lies outside every exhaustively enumerated sub-space.
pub fn check(b: &[u8], st: &mut Stats, random: Option<u32>) {
    netted(st, || case_of(b), b.len(), |st| check_inner(b, st, random, false));
}

/// a case of a further exhaustive space (distinct by construction within it): counted exactly
/// unless one of the earlier enumerations already held it
pub fn check_enum2(b: &[u8], st: &mut Stats, maxlen: u32) {
    netted(st, || case_of(b), b.len(), |st| check_inner(b, st, Some(maxlen), true));
}

/// set by run(): the thorough tier enumerates every byte string of length 4
static ALL_LEN4: std::sync::atomic::AtomicBool = std::sync::atomic::AtomicBool::new(false);

fn check_inner(b: &[u8], st: &mut Stats, random: Option<u32>, exact: bool) {
    st.eval();
    let mut accepted_any = false;
    let ascii_alnum = b.iter().all(|c| model::is_alnum(*c));

    // ---- Language
    {
        let exp = model::is_language(b);
        match guard(|| Language::from_bytes(b)) {
            Err(p) => st.fail(format!("language:{}", panic_sig(&p)), case_of(b), b.len(), format!("panic {p:?}")),
            Ok(r) => {
                if r.is_ok() != exp {
                    st.fail(
                        format!("language:{}:len{}", if exp { "rejects-wellformed" } else { "accepts-illformed" }, b.len()),
                        case_of(b),
                        b.len(),
                        format!("Language::from_bytes -> {:?}, reference says well-formed={exp}", r.as_ref().map(|l| l.as_str())),
                    );
                } else if let Ok(l) = r {
                    accepted_any = true;
                    let low = model::lower(b);
                    let is_und = low == "und";
                    let mut bad = vec![];
                    if l.as_str() != low {
                        bad.push(format!("as_str={:?} expected {:?}", l.as_str(), low));
                    }
                    if l.to_string() != low {
                        bad.push(format!("Display={:?}", l.to_string()));
                    }
                    if !(l == low.as_str()) {
                        bad.push("== &str of canonical text is false".into());
                    }
                    near_text_probes(&l, &low, &mut bad);
                    if l.is_empty() != is_und {
                        bad.push(format!("is_empty={} for {:?}", l.is_empty(), low));
                    }
                    if is_und && l != Language::default() {
                        bad.push("und != default()".into());
                    }
                    let up = model::upper(b);
                    if up != low && l == up.as_str() {
                        bad.push("== upper-cased text is true".into());
                    }
                    if let Ok(s) = std::str::from_utf8(b) {
                        if Language::from_str(s).ok() != Some(l) {
                            bad.push("FromStr disagrees".into());
                        }
                        if Language::try_from(Some(s)).ok() != Some(l) {
                            bad.push("TryFrom(Some) disagrees".into());
                        }
                    }
                    let mut c = l;
                    c.clear();
                    if !c.is_empty() || c != Language::default() || c.as_str() != "und" {
                        bad.push("clear() does not give und".into());
                    }
                    if !bad.is_empty() {
                        st.fail("language:text-mismatch", case_of(b), b.len(), bad.join("; "));
                    }
                }
            }
        }
    }
    // TryFrom<Option<&str>> is a second parsing entry point of Language: same verdict
    if let Ok(sx) = std::str::from_utf8(b) {
        let exp = model::is_language(b);
        match guard(|| Language::try_from(Some(sx))) {
            Err(p) => st.fail(format!("language-tryfrom:{}", panic_sig(&p)), case_of(b), b.len(), format!("panic {p:?}")),
            Ok(r) => {
                if r.is_ok() != exp {
                    st.fail(format!("language-tryfrom:{}:len{}", if exp { "rejects-wellformed" } else { "accepts-illformed" }, b.len()), case_of(b), b.len(), format!("Language::try_from(Some(..)) -> {:?}, reference says well-formed={exp}", r.as_ref().map(|l| l.as_str())));
                }
            }
        }
    }
    // ---- Script
    {
        let exp = model::is_script(b);
        match guard(|| Script::from_bytes(b)) {
            Err(p) => st.fail(format!("script:{}", panic_sig(&p)), case_of(b), b.len(), format!("panic {p:?}")),
            Ok(r) => {
                if r.is_ok() != exp {
                    st.fail(
                        format!("script:{}:len{}", if exp { "rejects-wellformed" } else { "accepts-illformed" }, b.len()),
                        case_of(b),
                        b.len(),
                        format!("Script::from_bytes -> {:?}, reference says well-formed={exp}", r.as_ref().map(|l| l.as_str())),
                    );
                } else if let Ok(l) = r {
                    accepted_any = true;
                    let t = model::title(b);
                    let mut bad = vec![];
                    if l.as_str() != t {
                        bad.push(format!("as_str={:?} expected {:?}", l.as_str(), t));
                    }
                    if l.to_string() != t {
                        bad.push(format!("Display={:?}", l.to_string()));
                    }
                    if !(l == t.as_str()) {
                        bad.push("== &str of canonical text is false".into());
                    }
                    near_text_probes(&l, &t, &mut bad);
                    let s2: &str = (&l).into();
                    if s2 != t {
                        bad.push("Into<&str> differs".into());
                    }
                    let low = model::lower(b);
                    if low != t && l == low.as_str() {
                        bad.push("== lower-cased text is true".into());
                    }
                    if let Ok(s) = std::str::from_utf8(b) {
                        if Script::from_str(s).ok() != Some(l) {
                            bad.push("FromStr disagrees".into());
                        }
                    }
                    if !bad.is_empty() {
                        st.fail("script:text-mismatch", case_of(b), b.len(), bad.join("; "));
                    }
                }
            }
        }
    }
    // ---- Region
    {
        let exp = model::is_region(b);
        match guard(|| Region::from_bytes(b)) {
            Err(p) => st.fail(format!("region:{}", panic_sig(&p)), case_of(b), b.len(), format!("panic {p:?}")),
            Ok(r) => {
                if r.is_ok() != exp {
                    st.fail(
                        format!("region:{}:len{}", if exp { "rejects-wellformed" } else { "accepts-illformed" }, b.len()),
                        case_of(b),
                        b.len(),
                        format!("Region::from_bytes -> {:?}, reference says well-formed={exp}", r.as_ref().map(|l| l.as_str())),
                    );
                } else if let Ok(l) = r {
                    accepted_any = true;
                    let t = model::upper(b);
                    let mut bad = vec![];
                    if l.as_str() != t {
                        bad.push(format!("as_str={:?} expected {:?}", l.as_str(), t));
                    }
                    if l.to_string() != t {
                        bad.push(format!("Display={:?}", l.to_string()));
                    }
                    if !(l == t.as_str()) {
                        bad.push("== &str of canonical text is false".into());
                    }
                    near_text_probes(&l, &t, &mut bad);
                    let s2: &str = (&l).into();
                    if s2 != t {
                        bad.push("Into<&str> differs".into());
                    }
                    let low = model::lower(b);
                    if low != t && l == low.as_str() {
                        bad.push("== lower-cased text is true".into());
                    }
                    if let Ok(s) = std::str::from_utf8(b) {
                        if Region::from_str(s).ok() != Some(l) {
                            bad.push("FromStr disagrees".into());
                        }
                    }
                    if !bad.is_empty() {
                        st.fail("region:text-mismatch", case_of(b), b.len(), bad.join("; "));
                    }
                }
            }
        }
    }
    // ---- Variant
    {
        let exp = model::is_variant(b);
        match guard(|| Variant::from_bytes(b)) {
            Err(p) => st.fail(format!("variant:{}", panic_sig(&p)), case_of(b), b.len(), format!("panic {p:?}")),
            Ok(r) => {
                if r.is_ok() != exp {
                    st.fail(
                        format!("variant:{}:len{}", if exp { "rejects-wellformed" } else { "accepts-illformed" }, b.len()),
                        case_of(b),
                        b.len(),
                        format!("Variant::from_bytes -> {:?}, reference says well-formed={exp}", r.as_ref().map(|l| l.as_str())),
                    );
                } else if let Ok(l) = r {
                    accepted_any = true;
                    let t = model::lower(b);
                    let mut bad = vec![];
                    if l.as_str() != t {
                        bad.push(format!("as_str={:?} expected {:?}", l.as_str(), t));
                    }
                    if l.to_string() != t {
                        bad.push(format!("Display={:?}", l.to_string()));
                    }
                    if !(l == t.as_str()) || !(l == *t.as_str()) {
                        bad.push("== &str / == str of canonical text is false".into());
                    }
                    near_text_probes(&l, &t, &mut bad);
                    for pad in ["\0", " ", "a", "n", "-", "\0\0\0"] {
                        if l == *format!("{t}{pad}").as_str() || l == *format!("{pad}{t}").as_str() || (t.len() > 1 && l == t[..t.len() - 1]) {
                            bad.push(format!("== str of {:?}-padded / truncated text is true", pad));
                        }
                    }
                    let up = model::upper(b);
                    if up != t && l == up.as_str() {
                        bad.push("== upper-cased text is true".into());
                    }
                    if let Ok(s) = std::str::from_utf8(b) {
                        if Variant::from_str(s).ok() != Some(l) {
                            bad.push("FromStr disagrees".into());
                        }
                    }
                    if !bad.is_empty() {
                        st.fail("variant:text-mismatch", case_of(b), b.len(), bad.join("; "));
                    }
                }
            }
        }
    }

    // FromStr is a separate public entry point of every subtag type: same verdict as the
    // production, for every input (not only the accepted ones)
    if let Ok(sx) = std::str::from_utf8(b) {
        let r = guard(|| (Language::from_str(sx).is_ok(), Script::from_str(sx).is_ok(), Region::from_str(sx).is_ok(), Variant::from_str(sx).is_ok()));
        match r {
            Err(p) => st.fail(format!("fromstr:{}", panic_sig(&p)), case_of(b), b.len(), format!("panic {p:?}")),
            Ok((l, s, r, v)) => {
                for (name, got, exp) in [("language", l, model::is_language(b)), ("script", s, model::is_script(b)), ("region", r, model::is_region(b)), ("variant", v, model::is_variant(b))] {
                    if got != exp {
                        st.fail(format!("{name}-fromstr:{}", if exp { "rejects-wellformed" } else { "accepts-illformed" }), case_of(b), b.len(), format!("{name}::from_str -> ok={got}, reference says well-formed={exp}"));
                    }
                }
            }
        }
    }
    let boundary = !accepted_any && ascii_alnum && (2..=8).contains(&b.len());
    if accepted_any || boundary {
        st.class(if accepted_any { "accepted-by-some-type" } else { "rejected-at-class-boundary" });
        let h = hash_bytes(b);
        if let Some(maxlen) = random {
            let l = b.len() as u32;
            let enumerated = l <= 3
                || (l == 4 && ALL_LEN4.load(std::sync::atomic::Ordering::Relaxed))
                || (l <= maxlen && b.iter().all(|c| BOUNDARY.contains(c)))
                || (l > maxlen && l <= 9 && b.iter().all(|c| SMALL.contains(c)));
            if !enumerated {
                if exact {
                    st.nontrivial_enum(h, || case_of(b));
                } else {
                    st.nontrivial(h, || case_of(b));
                }
            }
        } else {
            st.nontrivial_enum(h, || case_of(b));
        }
    } else {
        st.class("rejected-other");
    }
}

fn fixed_checks(st: &mut Stats) {
    // und / default / TryFrom(None)
    st.eval();
    let none: Option<&str> = None;
    let d = Language::default();
    let t = Language::try_from(none);
    if t.ok() != Some(d) || d.as_str() != "und" || d.to_string() != "und" || !d.is_empty() || !(d == "und") {
        st.fail("language:und-default", json!({"kind":"fixed","what":"default/TryFrom(None)"}), 0, "default()/TryFrom(None) is not the empty language printing 'und'");
    }
    let bad: Result<Language, _> = Language::try_from(Some("e"));
    if bad.is_ok() {
        st.fail("language:tryfrom-some-illformed", json!({"kind":"fixed","what":"TryFrom(Some(\"e\"))"}), 0, "accepted");
    }
}

pub fn run(cfg: &Cfg) -> Stats {
    let mut total = Stats::new();
    fixed_checks(&mut total);
    // all byte strings of length 0..=3
    let n3: u64 = 1 + 256 + 65536 + 16_777_216;
    let s = par_range(n3, |i, st| {
        let mut buf = [0u8; 3];
        let (len, v) = if i < 1 {
            (0, 0)
        } else if i < 257 {
            (1, i - 1)
        } else if i < 257 + 65536 {
            (2, i - 257)
        } else {
            (3, i - 257 - 65536)
        };
        for k in 0..len {
            buf[k] = ((v >> (8 * k)) & 0xff) as u8;
        }
        check(&buf[..len], st, None);
    });
    total = total.merge(s);
    total.subspace("all byte strings of length 0..=3", n3, true);

    // thorough: every byte string of length 4 (2^32) - the length at which script, the digit-led
    // variant form and the invalid 4-letter language meet
    ALL_LEN4.store(cfg.tier == Tier::Thorough, std::sync::atomic::Ordering::Relaxed);
    if cfg.tier == Tier::Thorough {
        let n4: u64 = 1 << 32;
        let s = par_range(n4, |i, st| {
            let buf = (i as u32).to_le_bytes();
            check(&buf, st, None);
        });
        total = total.merge(s);
        total.subspace("all byte strings of length 4", n4, true);
    }
    // boundary alphabet, lengths 4..=5 | 4..=6
    let maxlen = cfg.pick(6u32, 6u32);
    // (length 4 is already complete in the thorough tier)
    for len in (if cfg.tier == Tier::Thorough { 5 } else { 4 })..=maxlen {
        let n = (BOUNDARY.len() as u64).pow(len);
        let s = par_range(n, |mut i, st| {
            let mut buf = [0u8; 9];
            for k in 0..len as usize {
                buf[k] = BOUNDARY[(i % BOUNDARY.len() as u64) as usize];
                i /= BOUNDARY.len() as u64;
            }
            check(&buf[..len as usize], st, None);
        });
        total = total.merge(s);
        total.subspace(&format!("24-byte boundary alphabet, length {len}"), n, true);
    }
    // every lower-case alphanumeric string of length 4 and every lower-case letter string of
    // length 5 (thorough: alphanumeric too): words that mean something elsewhere (root, posix, true,
    // null ...) are in here whatever they are - an alias table reacts to exactly one of them
    {
        const AN: &[u8] = b"abcdefghijklmnopqrstuvwxyz0123456789";
        let spaces: Vec<(usize, u32)> = if cfg.tier == Tier::Thorough { vec![(36, 5)] } else { vec![(36, 4), (26, 5)] };
        for (base, len) in spaces {
            let n = (base as u64).pow(len);
            let s = par_range(n, |mut i, st| {
                let mut buf = [0u8; 9];
                for k in 0..len as usize {
                    buf[k] = AN[(i % base as u64) as usize];
                    i /= base as u64;
                }
                check_enum2(&buf[..len as usize], st, maxlen);
            });
            total = total.merge(s);
            total.subspace(&format!("every string of length {len} over the {base} lower-case {}", if base == 36 { "letters and digits" } else { "letters" }), n, true);
        }
    }
    // small alphabet, remaining lengths up to 9
    for len in (maxlen + 1)..=9 {
        let n = (SMALL.len() as u64).pow(len);
        let s = par_range(n, |mut i, st| {
            let mut buf = [0u8; 9];
            for k in 0..len as usize {
                buf[k] = SMALL[(i % SMALL.len() as u64) as usize];
                i /= SMALL.len() as u64;
            }
            check(&buf[..len as usize], st, None);
        });
        total = total.merge(s);
        total.subspace(&format!("6-byte alphabet, length {len}"), n, true);
    }
    // single-byte substitutions of valid subtags of every legal length (random=true: may
    // coincide with enumerated strings, so distinctness is measured)
    let bases: Vec<&[u8]> = vec![
        b"en", b"EN", b"ast", b"abcde", b"abcdef", b"abcdefg", b"abcdefgh", b"Latn", b"lATN", b"us", b"419", b"1abc",
        b"1234", b"9z9z", b"valen", b"valenc", b"valenci", b"valencia", b"12345", b"1234567", b"a1b2c3d4", b"VALENCIA",
        b"und", b"abcd", b"abcdefghi",
    ];
    let mut cases: Vec<Vec<u8>> = vec![];
    for base in &bases {
        for pos in 0..base.len() {
            for c in 0..=255u8 {
                let mut v = base.to_vec();
                v[pos] = c;
                cases.push(v);
            }
        }
    }
    let ncases = cases.len() as u64;
    let s = par_range(ncases, |i, st| check(&cases[i as usize], st, Some(maxlen)));
    total = total.merge(s);
    total.subspace("single-byte substitutions of 25 base subtags", ncases, true);

    // sanitisation slips and special words: valid subtags padded with (Unicode) whitespace or
    // with one letter replaced by a character that case-folds to ASCII (U+212A, U+017F, U+0130,
    // full-width, Cyrillic), and language-shaped words that begin with "und"
    let words: Vec<&str> = vec!["en", "ast", "abcde", "kana", "Kana", "latn", "us", "sk", "419", "1abc", "valencia", "kiswa", "sinak", "isiks", "und"];
    let mut extra: Vec<Vec<u8>> = crate::props::spaces::sanitisation_slips(&words);
    for w in crate::props::spaces::SPECIAL_WORDS.iter().filter(|w| w.len() <= 6 && w.is_ascii()) {
        // every letter-case image (<= 64 of them)
        let letters: Vec<usize> = w.bytes().enumerate().filter(|(_, c)| c.is_ascii_alphabetic()).map(|(i, _)| i).collect();
        for mask in 0u32..(1 << letters.len()) {
            let mut v = w.to_ascii_lowercase().into_bytes();
            for (bit, pos) in letters.iter().enumerate() {
                if (mask >> bit) & 1 == 1 {
                    v[*pos] = v[*pos].to_ascii_uppercase();
                }
            }
            extra.push(v);
        }
    }
    for w in ["undef", "undine", "undefine", "UNDEF", "Undine", "unde", "und1", "undu", "undundun", "un", "nd", "dun", "und-", "und\0"] {
        extra.push(w.as_bytes().to_vec());
    }
    // lengths that wrap to a legal length when narrowed to 8 or 16 bits (len as u8 == 4 ...):
    // L + 256, L + 512, L + 65536 for every legal / near-legal L, in letters, digits and
    // digit + letters, pure and with a non-alphanumeric tail
    for wrap in [256usize, 512, 65536] {
        for l in 1..=9usize {
            let n = wrap + l;
            extra.push(vec![b'a'; n]);
            extra.push(vec![b'7'; n]);
            let mut v = vec![b'b'; n];
            v[0] = b'1';
            extra.push(v);
            let mut v = vec![b'.'; n];
            for c in v.iter_mut().take(l) {
                *c = b'a';
            }
            extra.push(v);
            let mut v = vec![0u8; n];
            for c in v.iter_mut().take(l) {
                *c = b'z';
            }
            extra.push(v);
        }
    }
    let nextra = extra.len() as u64;
    let s = par_range(nextra, |i, st| check(&extra[i as usize], st, Some(maxlen)));
    total = total.merge(s);
    total.subspace("sanitisation slips of 15 subtags (padding, case-folding look-alikes) und-prefixed words, and strings whose length wraps to a legal one in 8 / 16 bits", nextra, true);

    // random
    let n = cfg.pick(2_000_000, 8_000_000);
    let strat = proptest::collection::vec(crate::gen::s_byte(), 0..10);
    // each random string is evaluated twice in a row (hidden state: a memo filled before validation)
    let s = run_strategy(&strat, cfg.seed, "c15-random", n, |b, st| {
        check(b, st, Some(maxlen));
        check(b, st, Some(0));
    });
    total = total.merge(s);
    total.subspace("weighted random bytes, length 0..10 (proptest)", n, false);
    total
}

pub fn replay(case: &Value, st: &mut Stats) {
    if case.get("kind").and_then(|k| k.as_str()) == Some("fixed") {
        fixed_checks(st);
        return;
    }
    if let Some(b) = case_bytes(case) {
        check(&b, st, Some(0));
    }
}
