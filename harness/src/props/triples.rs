//! (language, script, region) sweeps shared by C01 (totality), C06, C07, C08: the library
//! functions likelysubtags::{maximize, minimize} against the JSON-built reference.

use crate::likely::{Expect, Likely, Triple};
use crate::run::*;
use rayon::prelude::*;
use serde_json::{json, Value};
#[cfg(feature = "likely")]
use unic_langid::likelysubtags;
use unic_locale::subtags::{Language, Region, Script};

pub type Lib = (Language, Option<Script>, Option<Region>);

pub struct Handles {
    pub lk: Likely,
    pub langs: Vec<Language>,
    pub scripts: Vec<Option<Script>>,
    pub regions: Vec<Option<Region>>,
}

impl Handles {
    pub fn load(cfg: &Cfg) -> Result<Handles, String> {
        let lk = Likely::load(&cfg.repo)?;
        let mut langs = vec![];
        for (i, l) in lk.uni.langs.iter().enumerate() {
            let v: Language = l.parse().map_err(|_| format!("library rejects CLDR language {l}"))?;
            if (i == 0) != v.is_empty() {
                return Err(format!("language {l} parsed to is_empty={}", v.is_empty()));
            }
            langs.push(v);
        }
        let mut scripts = vec![None];
        for s in lk.uni.scripts.iter().skip(1) {
            scripts.push(Some(s.parse::<Script>().map_err(|_| format!("library rejects CLDR script {s}"))?));
        }
        let mut regions = vec![None];
        for r in lk.uni.regions.iter().skip(1) {
            regions.push(Some(r.parse::<Region>().map_err(|_| format!("library rejects CLDR region {r}"))?));
        }
        Ok(Handles { lk, langs, scripts, regions })
    }
    pub fn lib(&self, t: Triple) -> Lib {
        (self.langs[t.l as usize], self.scripts[t.s as usize], self.regions[t.r as usize])
    }
    /// the whole universe including the extended unknowns
    pub fn dims(&self) -> (u64, u64, u64) {
        (self.langs.len() as u64, self.scripts.len() as u64, self.regions.len() as u64)
    }
    /// absent + CLDR subtags + unknown representatives
    pub fn core_dims(&self) -> (u64, u64, u64) {
        (self.lk.uni.n_core_langs as u64, self.lk.uni.n_core_scripts as u64, self.lk.uni.n_core_regions as u64)
    }
    pub fn case(&self, t: Triple) -> Value {
        json!({"kind": "triple", "language": self.lk.uni.langs[t.l as usize], "script": self.lk.uni.scripts[t.s as usize], "region": self.lk.uni.regions[t.r as usize], "text": self.lk.show(t)})
    }
    pub fn from_case(&self, c: &Value) -> Option<Triple> {
        let lang = c["language"].as_str()?;
        let l = self.lk.uni.langs.iter().position(|x| x == lang)?;
        let s = self.lk.uni.scripts.iter().position(|x| x == c["script"].as_str().unwrap_or(""))?;
        let r = self.lk.uni.regions.iter().position(|x| x == c["region"].as_str().unwrap_or(""))?;
        Some(Triple { l: l as u16, s: s as u16, r: r as u16 })
    }
    pub fn show_lib(v: &Option<Lib>) -> String {
        match v {
            None => "None".into(),
            Some((l, s, r)) => {
                let mut t = l.as_str().to_string();
                if let Some(s) = s {
                    t.push('-');
                    t.push_str(s.as_str());
                }
                if let Some(r) = r {
                    t.push('-');
                    t.push_str(r.as_str());
                }
                format!("Some({t})")
            }
        }
    }
}

#[inline]
pub fn hash_triple(t: Triple) -> u64 {
    mix(((t.l as u64) << 32) | ((t.s as u64) << 16) | t.r as u64)
}

/// Sweep: quick = stratified (all one- and two-component combinations, all CLDR keys, a
/// seeded sample of full triples drawn through proptest), thorough = the whole universe.
/// `f(triple, stats, count_mode)`.
pub fn sweep(cfg: &Cfg, h: &Handles, tag: &str, f: &(dyn Fn(Triple, &mut Stats, Count) + Sync)) -> Stats {
    let (nl, ns, nr) = h.core_dims();
    let (xl, xs, xr) = h.dims();
    let mut total = Stats::new();
    let thorough = cfg.tier == Tier::Thorough;
    if thorough {
        let n = nl * ns * nr;
        let chunk = 1u64 << 16;
        let s = (0..n.div_ceil(chunk))
            .into_par_iter()
            .fold(Stats::new, |mut st, c| {
                for i in (c * chunk)..((c + 1) * chunk).min(n) {
                    let t = Triple { l: (i / (ns * nr)) as u16, s: ((i / nr) % ns) as u16, r: (i % nr) as u16 };
                    f(t, &mut st, Count::Enum);
                }
                st
            })
            .reduce(Stats::new, Stats::merge);
        total = total.merge(s);
        total.subspace(&format!("every (language, script, region) over {nl} x {ns} x {nr} (absent + CLDR subtags + unknown representatives)"), n, true);
    }
    // one- and two-component families over the EXTENDED universe (every two-letter and many
    // three-letter languages, neighbours of the known scripts, every well-formed region);
    // in the thorough tier the core part was already enumerated above and is not counted again
    let core = move |t: Triple| thorough && (t.l as u64) < nl && (t.s as u64) < ns && (t.r as u64) < nr;
    let n1 = xl * xs;
    let s = par_range(n1, |i, st| {
        let t = Triple { l: (i / xs) as u16, s: (i % xs) as u16, r: 0 };
        f(t, st, if core(t) { Count::No } else { Count::Enum })
    });
    total = total.merge(s);
    total.subspace(&format!("every (language, script, absent) over the extended universe ({xl} x {xs})"), n1, true);
    let n2 = xl * (xr - 1);
    let s = par_range(n2, |i, st| {
        let t = Triple { l: (i / (xr - 1)) as u16, s: 0, r: (i % (xr - 1) + 1) as u16 };
        f(t, st, if core(t) { Count::No } else { Count::Enum })
    });
    total = total.merge(s);
    total.subspace(&format!("every (language, absent, region) over the extended universe ({xl} x {})", xr - 1), n2, true);
    let n3 = (xs - 1) * (xr - 1);
    let s = par_range(n3, |i, st| {
        let t = Triple { l: 0, s: (i / (xr - 1) + 1) as u16, r: (i % (xr - 1) + 1) as u16 };
        f(t, st, if core(t) { Count::No } else { Count::Enum })
    });
    total = total.merge(s);
    total.subspace(&format!("every (und, script, region) over the extended universe ({} x {})", xs - 1, xr - 1), n3, true);
    // full triples around every CLDR key: key language x all core scripts x all core regions for
    // the languages that have lang_region / lang_script entries (their cascades are the richest)
    let mut rich: Vec<u16> = h.lk.lang_region.keys().map(|k| k.0).chain(h.lk.lang_script.keys().map(|k| k.0)).collect();
    rich.sort();
    rich.dedup();
    if !thorough {
        let n4 = rich.len() as u64 * (ns - 1) * (nr - 1);
        let s = par_range(n4, |i, st| {
            let l = rich[(i / ((ns - 1) * (nr - 1))) as usize];
            let rest = i % ((ns - 1) * (nr - 1));
            f(Triple { l, s: (rest / (nr - 1) + 1) as u16, r: (rest % (nr - 1) + 1) as u16 }, st, Count::Enum)
        });
        total = total.merge(s);
        total.subspace(&format!("full triples for the {} languages with language-region / language-script entries (core scripts x core regions)", rich.len()), n4, true);
    }
    // rich languages x their own key scripts x EVERY well-formed region, and x every script
    // (incl. neighbours) x their own key regions: complete identifiers next to two-component keys
    let mut pairs: Vec<(u16, u16, bool)> = h.lk.lang_script.keys().map(|k| (k.0, k.1, true)).chain(h.lk.lang_region.keys().map(|k| (k.0, k.1, false))).collect();
    pairs.sort();
    let n5 = pairs.len() as u64 * (xr + xs);
    let s = par_range(n5, |i, st| {
        let (l, x, is_script) = pairs[(i / (xr + xs)) as usize];
        let j = i % (xr + xs);
        let t = if is_script {
            if j < xr {
                Triple { l, s: x, r: j as u16 }
            } else {
                Triple { l, s: (j - xr) as u16, r: 0 }
            }
        } else if j < xs {
            Triple { l, s: j as u16, r: x }
        } else {
            Triple { l, s: 0, r: (j - xs) as u16 }
        };
        // members with an absent component belong to the families above; full triples inside
        // the core ranges were enumerated before (quick: rich languages; thorough: everything)
        let seen = t.s == 0 || t.r == 0 || ((t.s as u64) < ns && (t.r as u64) < nr);
        f(t, st, if seen { Count::No } else { Count::Hash })
    });
    total = total.merge(s);
    total.subspace("every language-script key x every region, every language-region key x every script (extended universe)", n5, true);
    // seeded sample of full triples over the extended universe (proptest)
    let rich_set: std::collections::HashSet<u16> = rich.iter().cloned().collect();
    let n6 = cfg.pick(4_000_000u64, 20_000_000u64);
    let strat = (1..xl as u16, 1..xs as u16, 1..xr as u16);
    let s = run_strategy(&strat, cfg.seed, &format!("{tag}-triples"), n6, |(l, s, r), st| {
        let t = Triple { l: *l, s: *s, r: *r };
        let in_core = (t.l as u64) < nl && (t.s as u64) < ns && (t.r as u64) < nr;
        let seen = in_core && (thorough || rich_set.contains(l));
        f(t, st, if seen { Count::No } else { Count::Hash })
    });
    total = total.merge(s);
    total.subspace("seeded sample of full (language, script, region) triples over the extended universe (proptest)", n6, false);
    // contended calls (G31): all worker threads ask about the same two dozen identifiers of
    // different languages, in a scrambled order, at the same time. The library documents no
    // shared state; a process-wide memo or "last row" cache that is updated in two steps is only
    // wrong while another thread sits between the steps.
    let mut hot: Vec<Triple> = vec![];
    {
        // sorted keys: HashMap iteration order must not leak into the run
        let mut lo: Vec<u16> = h.lk.lang_only.keys().cloned().collect();
        lo.sort();
        let mut lr: Vec<(u16, u16)> = h.lk.lang_region.keys().cloned().collect();
        lr.sort();
        let mut ls: Vec<(u16, u16)> = h.lk.lang_script.keys().cloned().collect();
        ls.sort();
        hot.extend(lo.iter().step_by((lo.len() / 8).max(1)).take(8).map(|l| Triple { l: *l, s: 0, r: 0 }));
        hot.extend(lr.iter().step_by((lr.len() / 6).max(1)).take(6).map(|k| Triple { l: k.0, s: 0, r: k.1 }));
        hot.extend(ls.iter().step_by((ls.len() / 6).max(1)).take(6).map(|k| Triple { l: k.0, s: k.1, r: 0 }));
        hot.extend(lo.iter().rev().take(4).map(|l| Triple { l: *l, s: 0, r: (nr - 1).max(1) as u16 }));
    }
    if !hot.is_empty() {
        let n7 = cfg.pick(3_000_000u64, 30_000_000u64);
        let k = hot.len() as u64;
        let s = par_range(n7, |i, st| f(hot[(mix(i ^ 0x5bd1e995) % k) as usize], st, Count::No));
        total = total.merge(s);
        total.subspace(&format!("contended calls: {k} identifiers of different languages asked by all threads at once, scrambled order"), n7, false);
    }
    total.extra.insert("triple_universe".into(), serde_json::json!({"core": [nl, ns, nr], "extended": [xl, xs, xr]}));
    total
}

#[cfg(feature = "likely")]
pub fn lib_max(t: Lib) -> Result<Option<Lib>, PanicInfo> {
    guard(|| likelysubtags::maximize(t.0, t.1, t.2))
}
#[cfg(feature = "likely")]
pub fn lib_min(t: Lib) -> Result<Option<Lib>, PanicInfo> {
    guard(|| likelysubtags::minimize(t.0, t.1, t.2))
}

// ------------------------------------------------------------------------------------------
// C01 part: totality only

#[cfg(feature = "likely")]
pub fn run_c01(cfg: &Cfg) -> Stats {
    let h = match Handles::load(cfg) {
        Ok(h) => h,
        Err(e) => {
            let mut st = Stats::new();
            st.oracle_error(format!("cannot build the triple universe: {e}"));
            return st;
        }
    };
    sweep(cfg, &h, "c01", &|t, st, mode| c01_one(&h, t, st, mode))
}

#[cfg(feature = "likely")]
fn c01_one(h: &Handles, t: Triple, st: &mut Stats, mode: Count) {
    st.eval();
    let lib = h.lib(t);
    if t.l != 0 || t.s != 0 || t.r != 0 {
        st.count(mode, hash_triple(t), || h.case(t));
    }
    if let Err(p) = lib_max(lib) {
        st.fail(format!("maximize:{}", panic_sig(&p)), h.case(t), 3, format!("likelysubtags::maximize panicked: {p:?}"));
    }
    if let Err(p) = lib_min(lib) {
        st.fail(format!("minimize:{}", panic_sig(&p)), h.case(t), 3, format!("likelysubtags::minimize panicked: {p:?}"));
    }
    let r = guard(|| {
        let li = unic_langid::LanguageIdentifier::from_parts(lib.0, lib.1, lib.2, &[]);
        let d = li.character_direction();
        let mut m = li.clone();
        m.maximize();
        let mut n = li.clone();
        n.minimize();
        (d, m.to_string(), n.to_string())
    });
    if let Err(p) = r {
        st.fail(format!("langid-methods:{}", panic_sig(&p)), h.case(t), 3, format!("character_direction/maximize/minimize panicked: {p:?}"));
    }
}

#[cfg(feature = "likely")]
pub fn replay_c01(case: &Value, st: &mut Stats) {
    let cfg = Cfg { prop: "C01".into(), tier: Tier::Quick, seed: 0, verif: "/verif".into(), repo: std::env::var("VERIF_REPO").unwrap_or("/repo".into()).into(), start: std::time::Instant::now() };
    if let Ok(h) = Handles::load(&cfg) {
        if let Some(t) = h.from_case(case) {
            c01_one(&h, t, st, Count::No);
        }
    }
}

pub fn expect_name(e: &Expect) -> &'static str {
    match e {
        Expect::Exact(Some(_)) => "entry",
        Expect::Exact(None) => "none",
        Expect::NoneOrFallback => "none-or-fallback",
    }
}

// ------------------------------------------------------------------------------------------
// method-level generator shared by C06, C07, C08: a triple biased towards the CLDR entries,
// dressed with variants and an extension string, built through Locale::from_parts

use crate::gen;
use crate::values::{self, Parts};
use proptest::prelude::*;
use proptest::strategy::SBoxedStrategy;

pub const DRESS_VARIANTS: &[&str] = &["valencia", "1abc", "macos", "1901", "1996", "abcde"];

#[derive(Clone, Debug)]
pub struct Dressed {
    pub kind: u8,
    pub pick: u32,
    pub l: u16,
    pub s: u16,
    pub r: u16,
    pub mask: u8,
    pub variants: Vec<String>,
    pub ext: Option<gen::Ast>,
}

pub fn s_dressed(h: &Handles) -> SBoxedStrategy<Dressed> {
    let (nl, ns, nr) = h.dims();
    (
        0u8..10,
        any::<u32>(),
        0..nl as u16,
        0..ns as u16,
        0..nr as u16,
        0u8..8,
        // registered variants too: code that interprets a variant (a romanisation, an orthography) reacts only to real ones
        proptest::collection::vec(
            prop_oneof![
                3 => proptest::sample::select(DRESS_VARIANTS.to_vec()).prop_map(|s| s.to_string()),
                3 => proptest::sample::select(gen::REAL_VARIANTS.to_vec()).prop_map(|s| s.to_string()),
                1 => gen::s_variant(),
            ],
            0..=3,
        ),
        proptest::option::weighted(0.6, gen::s_ast()),
    )
        .prop_map(|(kind, pick, l, s, r, mask, variants, ext)| Dressed { kind, pick, l, s, r, mask, variants, ext })
        .sboxed()
}

impl Handles {
    /// the triple a generated `Dressed` denotes: 0-3 a CLDR key (optionally with one more
    /// component), 4-6 a CLDR value with components dropped by `mask`, 7-9 free
    pub fn dressed_triple(&self, d: &Dressed) -> Triple {
        let n = self.lk.by_key.len() as u64;
        let idx = ((d.pick as u64 * n) >> 32) as usize;
        match d.kind {
            0..=2 => self.lk.by_key[idx].0,
            3 => {
                let mut t = self.lk.by_key[idx].0;
                match d.mask % 3 {
                    0 if t.l == 0 => t.l = d.l,
                    1 if t.s == 0 => t.s = d.s,
                    _ if t.r == 0 => t.r = d.r,
                    _ => {}
                }
                t
            }
            4..=6 => {
                let mut t = self.lk.by_key[idx].1;
                if d.mask & 1 != 0 {
                    t.l = 0;
                }
                if d.mask & 2 != 0 {
                    t.s = 0;
                }
                if d.mask & 4 != 0 {
                    t.r = 0;
                }
                t
            }
            _ => Triple { l: d.l, s: if d.mask & 2 != 0 { 0 } else { d.s }, r: if d.mask & 4 != 0 { 0 } else { d.r } },
        }
    }
    pub fn dressed_parts(&self, d: &Dressed) -> Parts {
        let t = self.dressed_triple(d);
        // odd spellings now and then: the subtags reach the library through their parsers
        let flip = |s: &String, on: bool| if on { if s.bytes().any(|b| b.is_ascii_lowercase()) { s.to_ascii_uppercase() } else { s.to_ascii_lowercase() } } else { s.clone() };
        let odd = d.pick % 4 == 1;
        let opt = |s: &String, on: bool| if s.is_empty() { None } else { Some(flip(s, on)) };
        Parts {
            lang: flip(&self.lk.uni.langs[t.l as usize], odd && d.pick & 4 != 0),
            script: opt(&self.lk.uni.scripts[t.s as usize], odd && d.pick & 8 != 0),
            region: opt(&self.lk.uni.regions[t.r as usize], odd && d.pick & 16 != 0),
            variants: d.variants.clone(),
            ext: d.ext.as_ref().and_then(|a| values::ext_string(a, false)),
        }
    }
    pub fn triple_of_parts(&self, p: &Parts) -> Option<Triple> {
        let l = self.lk.uni.langs.iter().position(|x| x.eq_ignore_ascii_case(&p.lang))?;
        let s = match &p.script {
            None => 0,
            Some(s) => self.lk.uni.scripts.iter().position(|x| x.eq_ignore_ascii_case(s))?,
        };
        let r = match &p.region {
            None => 0,
            Some(s) => self.lk.uni.regions.iter().position(|x| x.eq_ignore_ascii_case(s))?,
        };
        Some(Triple { l: l as u16, s: s as u16, r: r as u16 })
    }
}

pub fn lib_triple(li: &unic_langid::LanguageIdentifier) -> Lib {
    (li.language, li.script, li.region)
}

pub fn load_or_error(cfg: &Cfg) -> Result<Handles, Stats> {
    Handles::load(cfg).map_err(|e| {
        let mut st = Stats::new();
        st.oracle_error(format!("cannot build the triple universe: {e}"));
        st
    })
}

pub fn replay_cfg(prop: &str) -> Cfg {
    Cfg { prop: prop.into(), tier: Tier::Quick, seed: 0, verif: std::env::var("VERIF_DIR").unwrap_or("/verif".into()).into(), repo: std::env::var("VERIF_REPO").unwrap_or("/repo".into()).into(), start: std::time::Instant::now() }
}
