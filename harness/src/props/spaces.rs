//! Shared input spaces: each drives a byte-level check function over G1..G5.
//! Enumerated sub-spaces are registered so that a case that already belongs to an earlier
//! enumeration of the same run is not counted twice in `distinct_nontrivial`.

use crate::gen;
use crate::run::*;
use std::collections::HashSet;

pub type ByteCheck<'a> = dyn Fn(&[u8], &mut Stats, Count) + Sync + Send + 'a;

#[derive(Clone)]
pub struct Space {
    prefix: Vec<u8>,
    sep: u8,
    alpha: HashSet<Vec<u8>>,
    depth: u32,
}

impl Space {
    pub fn new(prefix: &[u8], sep: u8, alpha: &[Vec<u8>], depth: u32) -> Self {
        Space { prefix: prefix.to_vec(), sep, alpha: alpha.iter().cloned().collect(), depth }
    }
    pub fn contains(&self, b: &[u8]) -> bool {
        if !b.starts_with(&self.prefix) {
            return false;
        }
        let rest = &b[self.prefix.len()..];
        let mut n = 0u32;
        let mut start = 0;
        for i in 0..=rest.len() {
            if i == rest.len() || rest[i] == b'-' || rest[i] == b'_' {
                if i < rest.len() {
                    let want = if self.sep == 0 {
                        if n % 2 == 0 {
                            b'_'
                        } else {
                            b'-'
                        }
                    } else {
                        self.sep
                    };
                    if rest[i] != want {
                        return false;
                    }
                }
                if !self.alpha.contains(&rest[start..i]) {
                    return false;
                }
                n += 1;
                start = i + 1;
                if n > self.depth {
                    return false;
                }
            }
        }
        n == self.depth
    }
}

pub struct Driver<'a> {
    pub total: Stats,
    spaces: Vec<Space>,
    f: &'a ByteCheck<'a>,
}

impl<'a> Driver<'a> {
    pub fn new(f: &'a ByteCheck<'a>) -> Self {
        Driver { total: Stats::new(), spaces: vec![], f }
    }
    fn absorb(&mut self, s: Stats) {
        let old = std::mem::take(&mut self.total);
        self.total = old.merge(s);
    }
    pub fn enumerate(&mut self, name: &str, alpha: &[Vec<u8>], depth: u32, sep: u8, prefix: &[u8]) {
        let n = gen::pow(alpha.len(), depth);
        let f = self.f;
        let spaces = &self.spaces;
        let s = par_range(n, |i, st| {
            let mut buf = Vec::with_capacity(64);
            let mut seq = Vec::with_capacity(64);
            gen::nth_seq(alpha, depth, i, sep, &mut seq);
            buf.extend_from_slice(prefix);
            buf.extend_from_slice(&seq);
            let dup = spaces.iter().any(|sp| sp.contains(&buf));
            f(&buf, st, if dup { Count::No } else { Count::Enum });
        });
        self.absorb(s);
        self.total.subspace(name, n, true);
        self.spaces.push(Space { prefix: prefix.to_vec(), sep, alpha: alpha.iter().cloned().collect(), depth });
    }
    pub fn strategy<S>(&mut self, name: &str, strat: &S, seed: u64, phase: &str, n: u64, to_bytes: impl Fn(&S::Value) -> Vec<u8> + Sync + Send)
    where
        S: proptest::strategy::Strategy + Sync,
        S::Value: Clone,
    {
        let f = self.f;
        let spaces = &self.spaces;
        let s = run_strategy(strat, seed, phase, n, |v, st| {
            let b = to_bytes(v);
            let dup = spaces.iter().any(|sp| sp.contains(&b));
            f(&b, st, if dup { Count::No } else { Count::Hash });
        });
        self.absorb(s);
        self.total.subspace(name, n, false);
    }
    /// hidden-state phase: every generated input is evaluated right after each of its one-character
    /// neighbours on the same thread (the neighbours are ordinary cases of their own, not counted)
    pub fn after_neighbours<S>(&mut self, name: &str, strat: &S, seed: u64, phase: &str, n: u64, to_bytes: impl Fn(&S::Value) -> Vec<u8> + Sync + Send)
    where
        S: proptest::strategy::Strategy + Sync,
        S::Value: Clone,
    {
        let f = self.f;
        let s = run_strategy(strat, seed, phase, n, |v, st| {
            let b = to_bytes(v);
            // one buffer, refilled in place: the neighbour and the case have the same length and
            // live at the same address (a memo keyed on pointer + length would confuse them)
            let mut buf: Vec<u8> = Vec::with_capacity(b.len());
            for nb in gen::neighbour_bytes(&b) {
                buf.clear();
                buf.extend_from_slice(&nb);
                f(&buf, st, Count::No);
                buf.clear();
                buf.extend_from_slice(&b);
                with_predecessors(&[nb.as_slice()], || f(&buf, st, Count::No));
            }
            st.class("evaluated-after-a-neighbour");
        });
        self.absorb(s);
        self.total.subspace(name, n, false);
    }
    /// hidden-state phase: every generated input is evaluated three times in a row on the same thread
    /// (a memo that is filled before validation answers differently the second time)
    pub fn repeats<S>(&mut self, name: &str, strat: &S, seed: u64, phase: &str, n: u64, to_bytes: impl Fn(&S::Value) -> Vec<u8> + Sync + Send)
    where
        S: proptest::strategy::Strategy + Sync,
        S::Value: Clone,
    {
        let f = self.f;
        let s = run_strategy(strat, seed, phase, n, |v, st| {
            let b = to_bytes(v);
            f(&b, st, Count::No);
            f(&b, st, Count::No);
            f(&b, st, Count::No);
            st.class("evaluated-three-times-in-a-row");
        });
        self.absorb(s);
        self.total.subspace(name, n, false);
    }
    /// The very first inputs of the process: the slips, each right after its well-formed base, on
    /// ONE thread in list order, before anything else has gone through the library (a bounded memo
    /// fills up with whatever comes first and never sees later inputs). Not counted: the same items
    /// are evaluated and counted again by `list` at their usual place.
    pub fn first(&mut self, items: &[Vec<u8>]) {
        let f = self.f;
        let mut st = Stats::new();
        for (i, b) in items.iter().enumerate() {
            // the item before it (its base, for a slip) goes into the case: a replay evaluates it first
            let preds: Vec<&[u8]> = if i > 0 { vec![items[i - 1].as_slice()] } else { vec![] };
            with_predecessors(&preds, || f(b, &mut st, Count::No));
        }
        self.absorb(st);
        self.total.subspace("hidden state from a cold start: sanitisation slips, each right after its base, as the first inputs of the process (one thread, list order)", items.len() as u64, true);
    }
    pub fn list(&mut self, name: &str, items: &[Vec<u8>]) {
        let f = self.f;
        let spaces = &self.spaces;
        let s = par_range(items.len() as u64, |i, st| {
            let b = &items[i as usize];
            let dup = spaces.iter().any(|sp| sp.contains(b));
            f(b, st, if dup { Count::No } else { Count::Hash });
        });
        self.absorb(s);
        self.total.subspace(name, items.len() as u64, true);
    }
}

fn strs(v: &[&str]) -> Vec<Vec<u8>> {
    v.iter().map(|s| s.as_bytes().to_vec()).collect()
}

/// "Sanitisation slips": well-formed strings padded with ASCII / Unicode whitespace, control
/// characters or stray separators at either end, or with one letter replaced by a character
/// that case-folds to ASCII. All are ill-formed; a parser that trims or folds accepts them.
pub fn sanitisation_slips(bases: &[&str]) -> Vec<Vec<u8>> {
    const PADS: &[&str] = &[" ", "\t", "\n", "\r\n", "\u{a0}", "\u{2003}", "\u{feff}", "\0", "\u{b}", "\u{c}", "-", "_", "\u{85}"];
    const FOLD: &[(char, char)] = &[('k', '\u{212a}'), ('s', '\u{17f}'), ('i', '\u{130}'), ('i', '\u{131}'), ('a', '\u{ff41}'), ('e', '\u{435}'), ('n', '\u{ff4e}')];
    // every slip is preceded by its well-formed base: list items are evaluated in order within a
    // chunk of one worker thread, so a memo keyed by a folded / trimmed form of the text has just
    // been filled by the base when the slip arrives (no sorting, no de-duplication here)
    let mut out = vec![];
    let mut push = |b: &str, slip: String| {
        out.push(b.as_bytes().to_vec());
        out.push(slip.into_bytes());
    };
    for b in bases {
        for p in PADS {
            push(b, format!("{p}{b}"));
            push(b, format!("{b}{p}"));
            push(b, format!("{p}{b}{p}"));
        }
        for (from, to) in FOLD {
            let lower = b.to_ascii_lowercase();
            let hits: Vec<usize> = lower.char_indices().filter(|(_, ch)| ch == from).map(|(i, _)| i).collect();
            for pos in &hits {
                let mut c: Vec<char> = b.chars().collect();
                c[*pos] = *to;
                push(b, c.into_iter().collect::<String>());
            }
            if hits.len() > 1 {
                let c: String = b.chars().map(|ch| if ch.to_ascii_lowercase() == *from { *to } else { ch }).collect();
                push(b, c);
            }
        }
    }
    out
}

/// every single-byte substitution (all 256 values) at every position of the base strings
pub fn byte_substitutions(bases: &[&str]) -> Vec<Vec<u8>> {
    let mut out = vec![];
    for b in bases {
        let b = b.as_bytes();
        for i in 0..b.len() {
            for v in 0..=255u8 {
                if v != b[i] {
                    let mut c = b.to_vec();
                    c[i] = v;
                    out.push(c);
                }
            }
        }
    }
    out.sort();
    out.dedup();
    out
}

pub const SLIP_BASES_LANGID: &[&str] = &["en", "und", "en-US", "de_AT", "sr-Cyrl-RS", "ca-ES-valencia", "sl-1994", "es-419", "EN-latn-us", "abcde-Kana-001-1abc-nedis", "ko", "ko-KR", "sk-SK", "is-IS", "en-UK"];
pub const SLIP_BASES_LOCALE: &[&str] = &["en-u-ca-buddhist", "en-US-t-es-ar-k0-kana", "und-x-priv", "de-u-attr-co-phonebk-t-h0-hybrid-x-a-b", "sk-Latn-SK-u-nu-latn", "en-t-k0-kana-u-ks-level1"];

/// words with a meaning elsewhere (CLDR's root, POSIX locale names, grandfathered BCP 47 tags,
/// JSON / Rust literals): none is special to this grammar, whatever a helpful fast path may think
pub const SPECIAL_WORDS: &[&str] = &[
    "root", "ROOT", "Root", "und", "UND", "mul", "zxx", "mis", "i-default", "x-private", "en-x-private", "*", "en-*", "C", "POSIX", "en_US.UTF-8", "en_US@euro", "true", "null", "None",
    "default", "und-x-foo", "und-u-ca-buddhist", "zh-cmn-Hans", "sgn-BE-FR", "i-klingon", "en-GB-oed", "art-lojban", "cel-gaulish", "no-bok", "zh-min-nan", "root-x-foo", "root-Latn",
    "i-ami", "i-bnn", "i-enochian", "i-hak", "i-lux", "i-mingo", "i-navajo", "i-pwn", "i-tao", "i-tay", "i-tsu", "sgn-BE-NL", "sgn-CH-DE", "no-nyn", "zh-guoyu", "zh-hakka", "zh-min", "zh-xiang", "zh-cmn", "zh-yue", "zh-gan", "zh-wuu",
    "sr-Latn-YU", "en-US-posix", "ja-JP-u-ca-japanese", "th-TH-u-nu-thai", "ja-Latn-hepburn-heploc", "hy-arevela", "aa-SAAHO", "en-US-u-va-posix", "es-419", "de-1901", "de-1996", "sl-rozaj-biske-1994",
    "en-root", "en-u-va-posix", "en-posix", "und-ZZ", "und-Zzzz", "und-Zzzz-ZZ", "en-Zzzz", "en-ZZ", "und-001", "zz", "zzz", "xx-XX", "iw", "in", "ji", "he", "id", "yi", "tl", "fil", "sh", "mo",
];

/// The language-identifier space of C02 / C13 / C19.
pub fn langid_space(cfg: &Cfg, tag: &str, f: &ByteCheck<'_>) -> Stats {
    let mut d = Driver::new(f);
    d.first(&sanitisation_slips(SLIP_BASES_LANGID));
    let alpha = gen::langid_alphabet();
    for k in 1..=cfg.pick(4, 5) {
        d.enumerate(&format!("langid alphabet ({} tokens), {k} subtags, '-'", alpha.len()), &alpha, k, b'-', b"");
    }
    let small = strs(&["en", "EN", "und", "abcd", "Latn", "us", "001", "1abc", "abcd1", "valencia", "abcdefghi", "", "a.b", "u", "12"]);
    for k in 2..=cfg.pick(4, 5) {
        d.enumerate(&format!("reduced alphabet ({} tokens), {k} subtags, '_'", small.len()), &small, k, b'_', b"");
    }
    for k in 3..=cfg.pick(4, 5) {
        d.enumerate(&format!("reduced alphabet ({} tokens), {k} subtags, alternating '_' '-'", small.len()), &small, k, 0, b"");
    }
    let n = cfg.pick(1_000_000, 5_000_000);
    d.strategy("G2 well-formed language ids, random case/separator masks (proptest)", &gen::s_langid_bytes(), cfg.seed, &format!("{tag}-g2"), n, |b| b.clone());
    d.strategy("G3 near-miss mutations (1-3 edits) of well-formed language ids (proptest)", &gen::s_near_miss_langid(), cfg.seed, &format!("{tag}-g3"), n, |b| b.clone());
    d.strategy("G2 long language ids, 5-16 variants, 60-150 bytes (proptest)", &gen::s_langid_long_bytes(), cfg.seed, &format!("{tag}-g2long"), n / 8, |b| b.clone());
    let n4 = cfg.pick(100_000, 2_000_000);
    d.strategy("G4 weighted raw bytes (proptest)", &gen::s_raw(), cfg.seed, &format!("{tag}-g4"), n4, |b| b.clone());
    let c = gen::corpus(&cfg.repo);
    let mut all: Vec<Vec<u8>> = c
        .locale_names
        .iter()
        .chain(c.likely_keys.iter())
        .chain(c.likely_vals.iter())
        .map(|s| s.as_bytes().to_vec())
        .collect();
    all.sort();
    all.dedup();
    d.list("G5 CLDR locale names, likelySubtags keys and values", &all);
    d.list("sanitisation slips: well-formed ids padded with whitespace / control characters / separators, or with a letter that case-folds to ASCII", &sanitisation_slips(SLIP_BASES_LANGID));
    d.list("special words (root, POSIX names, grandfathered tags, withdrawn codes ...)", &strs(SPECIAL_WORDS));
    d.list("every single-byte substitution (256 values x every position) of 10 well-formed language ids", &byte_substitutions(SLIP_BASES_LANGID));
    d.after_neighbours("hidden state: G2 language ids, each evaluated right after every one-character neighbour (proptest)", &gen::s_langid_bytes(), cfg.seed, &format!("{tag}-nb"), n / 8, |b| b.clone());
    d.repeats("hidden state: near-miss language ids, each evaluated three times in a row (proptest)", &gen::s_near_miss_langid(), cfg.seed, &format!("{tag}-rep"), n / 8, |b| b.clone());
    d.repeats("hidden state: raw bytes, each evaluated three times in a row (proptest)", &gen::s_raw(), cfg.seed, &format!("{tag}-rep4"), n4 / 4, |b| b.clone());
    {
        // subtags whose length wraps to a legal one when narrowed to 8 bits, in every position
        let mut wraps: Vec<Vec<u8>> = vec![];
        for l in [2usize, 3, 4, 5, 8] {
            let long_a = "a".repeat(256 + l);
            let long_1 = format!("1{}", "b".repeat(255 + l));
            for t in [format!("{long_a}"), format!("{long_a}-US"), format!("en-{long_a}"), format!("en-{long_a}-US"), format!("en-Latn-{long_a}"), format!("en-US-{long_a}"), format!("en-US-{long_1}"), format!("en-{}", "7".repeat(256 + l))] {
                wraps.push(t.into_bytes());
            }
        }
        d.list("subtags of length 256 + L (L a legal subtag length) in every position", &wraps);
    }
    let nl = cfg.pick(20_000, 300_000);
    d.strategy("very long variant lists: 20-80 variants drawn from a 12-element pool, so repeats are certain (proptest)", &gen::s_langid_many_variants(), cfg.seed, &format!("{tag}-manyvar"), nl, |b| b.clone());
    d.total
}

/// The locale space of C01 / C03 / C04 / C05 / C13.
pub fn locale_space(cfg: &Cfg, tag: &str, f: &ByteCheck<'_>) -> Stats {
    let mut d = Driver::new(f);
    {
        let bases: Vec<&str> = SLIP_BASES_LANGID.iter().chain(SLIP_BASES_LOCALE.iter()).cloned().collect();
        d.first(&sanitisation_slips(&bases));
    }
    let full = gen::full_alphabet();
    let loc = gen::locale_alphabet();
    let core = gen::core_alphabet();
    for k in 1..=cfg.pick(3, 4) {
        d.enumerate(&format!("full boundary alphabet ({} tokens), {k} subtags", full.len()), &full, k, b'-', b"");
    }
    for k in 1..=cfg.pick(4, 5) {
        d.enumerate(&format!("'en-' + locale alphabet ({} tokens), {k} subtags", loc.len()), &loc, k, b'-', b"en-");
    }
    for k in 4..=cfg.pick(4, 5) {
        d.enumerate(&format!("locale alphabet ({} tokens), {k} subtags, no prefix", loc.len()), &loc, k, b'-', b"");
    }
    for k in 5..=cfg.pick(6, 7) {
        d.enumerate(&format!("'en-' + core alphabet ({} tokens), {k} subtags", core.len()), &core, k, b'-', b"en-");
    }
    d.enumerate("'en_' + core alphabet, 4 subtags, '_' separators", &core, 4, b'_', b"en_");
    let n = cfg.pick(1_000_000, 8_000_000);
    d.strategy("G2 well-formed locales, all extension shapes, random case/separator masks (proptest)", &gen::s_ast(), cfg.seed, &format!("{tag}-g2"), n, |a| a.render());
    d.strategy("G3 near-miss mutations (1-3 edits) of well-formed locales (proptest)", &gen::s_near_miss(), cfg.seed, &format!("{tag}-g3"), n, |b| b.clone());
    d.strategy("G2 long locales: many variants, keywords and private tags, 100-400 bytes (proptest)", &gen::s_locale_long_bytes(), cfg.seed, &format!("{tag}-g2long"), n / 8, |b| b.clone());
    d.strategy("G2 long language ids, 5-16 variants (proptest)", &gen::s_langid_long_bytes(), cfg.seed, &format!("{tag}-g2longid"), n / 16, |b| b.clone());
    d.strategy("G2 huge locales: 20-150 attributes / keywords / tfields / private tags, up to a few thousand bytes (proptest)", &gen::s_locale_huge_bytes(), cfg.seed, &format!("{tag}-g2huge"), n / 64, |b| b.clone());
    let n4 = cfg.pick(100_000, 2_000_000);
    d.strategy("G4 weighted raw bytes (proptest)", &gen::s_raw(), cfg.seed, &format!("{tag}-g4"), n4, |b| b.clone());
    let c = gen::corpus(&cfg.repo);
    let mut all: Vec<Vec<u8>> = vec![];
    for n in c.locale_names.iter().chain(c.likely_vals.iter().step_by(16)) {
        for suf in gen::EXT_SUFFIXES {
            all.push(format!("{n}{suf}").into_bytes());
        }
    }
    all.sort();
    all.dedup();
    d.list("G5 CLDR locale names x extension suffixes", &all);
    let bases: Vec<&str> = SLIP_BASES_LANGID.iter().chain(SLIP_BASES_LOCALE.iter()).cloned().collect();
    d.list("sanitisation slips: well-formed locales padded with whitespace / control characters / separators, or with a letter that case-folds to ASCII", &sanitisation_slips(&bases));
    d.list("special words (root, POSIX names, grandfathered tags, withdrawn codes ...)", &strs(SPECIAL_WORDS));
    d.list("every single-byte substitution (256 values x every position) of 16 well-formed ids / locales", &byte_substitutions(&bases));
    d.after_neighbours("hidden state: G2 locales, each evaluated right after every one-character neighbour (proptest)", &gen::s_ast(), cfg.seed, &format!("{tag}-nb"), n / 8, |a| a.render());
    d.repeats("hidden state: near-miss locales, each evaluated three times in a row (proptest)", &gen::s_near_miss(), cfg.seed, &format!("{tag}-rep"), n / 8, |b| b.clone());
    d.repeats("hidden state: raw bytes, each evaluated three times in a row (proptest)", &gen::s_raw(), cfg.seed, &format!("{tag}-rep4"), n4 / 4, |b| b.clone());
    let nl = cfg.pick(10_000, 200_000);
    d.strategy("very long variant lists (20-80, repeats certain) followed by extensions (proptest)", &gen::s_langid_many_variants(), cfg.seed, &format!("{tag}-manyvar"), nl, |b| {
        let mut v = b.clone();
        v.extend_from_slice(b"-u-attr-ca-buddhist-x-a");
        v
    });
    d.total
}
