pub mod c15;
