//! G28 - cold-start probes. The library is documented as stateless; a process-wide flag, lazily
//! built index or "initialised yet?" switch is not. Every in-process check warms such state up
//! with its first few cases, so a defect that shows only *before* the first parse (or the first
//! look-up) of the process is invisible to it. Here one probe = one fresh child process of this
//! binary (`vcheck --cold pair ...`) whose very first library calls are the ones under test, on
//! values built through the raw constructors only (no parser, no mutator has run in that process).
//! The raw integers are taken from the library itself in the (warm) parent, so nothing is assumed
//! about the packing (C17 / C18 are about that).

use crate::run::*;
use serde_json::{json, Value};
use std::collections::hash_map::DefaultHasher;
use std::hash::{Hash, Hasher};
use unic_locale::subtags::{Language, Region, Script, Variant};
use unic_locale::LanguageIdentifier;

fn enc(li: &LanguageIdentifier) -> String {
    let l: Option<u64> = li.language.into();
    let s: Option<u32> = li.script.map(Into::into);
    let r: Option<u32> = li.region.map(Into::into);
    let v: Vec<String> = li.variants().map(|v| u64::from(v).to_string()).collect();
    format!("{};{};{};{}", l.map_or("-".to_string(), |x| x.to_string()), s.map_or("-".to_string(), |x| x.to_string()), r.map_or("-".to_string(), |x| x.to_string()), v.join(","))
}

fn dec(t: &str) -> Option<LanguageIdentifier> {
    let p: Vec<&str> = t.split(';').collect();
    if p.len() != 4 {
        return None;
    }
    // sound: every integer was produced by Into<u64 / u32> of a valid subtag in the parent
    let lang = if p[0] == "-" { Language::default() } else { unsafe { Language::from_raw_unchecked(p[0].parse().ok()?) } };
    let script = if p[1] == "-" { None } else { Some(unsafe { Script::from_raw_unchecked(p[1].parse().ok()?) }) };
    let region = if p[2] == "-" { None } else { Some(unsafe { Region::from_raw_unchecked(p[2].parse().ok()?) }) };
    let vs: Vec<Variant> = if p[3].is_empty() { vec![] } else { p[3].split(',').filter_map(|x| x.parse().ok()).map(|x| unsafe { Variant::from_raw_unchecked(x) }).collect() };
    let variants = if vs.is_empty() { None } else { Some(vs.into_boxed_slice()) };
    Some(LanguageIdentifier::from_raw_parts_unchecked(lang, script, region, variants))
}

fn h<T: Hash>(t: &T) -> u64 {
    let mut s = DefaultHasher::new();
    t.hash(&mut s);
    s.finish()
}

/// child: `vcheck --cold pair <order> <a> <b>`; prints one JSON line
pub fn child_main(args: &[String]) -> i32 {
    if args.len() < 4 || args[0] != "pair" {
        return 2;
    }
    let (Some(a), Some(b)) = (dec(&args[2]), dec(&args[3])) else { return 2 };
    let mut out = serde_json::Map::new();
    let groups: Vec<&str> = match args[1].as_str() {
        "matches-first" => vec!["m", "e", "s"],
        "eq-first" => vec!["e", "m", "s"],
        _ => vec!["s", "e", "m"],
    };
    for g in groups {
        match g {
            "m" => {
                let m: Vec<bool> = [(false, false), (true, false), (false, true), (true, true)].iter().map(|(ra, rb)| a.matches(&b, *ra, *rb)).collect();
                out.insert("matches".into(), json!(m));
                out.insert("lang_matches".into(), json!(a.language.matches(b.language, true, false)));
            }
            "e" => {
                out.insert("eq".into(), json!(a == b));
                out.insert("cmp".into(), json!(format!("{:?}", a.cmp(&b))));
                out.insert("hash_eq".into(), json!(h(&a) == h(&b)));
                out.insert("has_variant".into(), json!(b.variants().map(|v| a.has_variant(*v)).collect::<Vec<bool>>()));
            }
            _ => {
                out.insert("a".into(), json!(a.to_string()));
                out.insert("b".into(), json!(b.to_string()));
                out.insert("a_eq_str".into(), json!(a == a.to_string().as_str()));
            }
        }
    }
    // only now the parser runs in this process
    out.insert("reparse_a".into(), json!(a.to_string().parse::<LanguageIdentifier>().map(|x| x == a).unwrap_or(false)));
    println!("{}", Value::Object(out));
    0
}

pub fn probe(a: &LanguageIdentifier, b: &LanguageIdentifier, order: &str) -> Result<Value, String> {
    let exe = std::env::current_exe().map_err(|e| e.to_string())?;
    let o = std::process::Command::new(exe).args(["--cold", "pair", order, &enc(a), &enc(b)]).output().map_err(|e| e.to_string())?;
    if !o.status.success() {
        return Err(format!("child ended with {:?}: {}", o.status, String::from_utf8_lossy(&o.stderr).chars().take(300).collect::<String>()));
    }
    serde_json::from_slice(&o.stdout).map_err(|e| format!("child output not JSON: {e}: {:?}", String::from_utf8_lossy(&o.stdout)))
}

pub fn pair_case(a: &LanguageIdentifier, b: &LanguageIdentifier, order: &str) -> Value {
    json!({"kind": "cold-pair", "a": a.to_string(), "b": b.to_string(), "order": order})
}

/// the identifiers the probes are drawn from: few languages / scripts / regions, variant lists that
/// are equal, disjoint, nested, and of different lengths
pub fn pool() -> Vec<LanguageIdentifier> {
    let mut v = vec![];
    for l in ["und", "en", "fr", "abcdefgh"] {
        for s in ["", "-Latn", "-Cyrl"] {
            for r in ["", "-US", "-001"] {
                for va in ["", "-macos", "-windows", "-macos-windows", "-1abc-macos-valencia"] {
                    if let Ok(li) = format!("{l}{s}{r}{va}").parse::<LanguageIdentifier>() {
                        v.push(li);
                    }
                }
            }
        }
    }
    v
}

/// Runs `n` probes (pairs chosen by a fixed stride through pool x pool, so the set is the same on
/// every run and covers equal / one-field-apart / unrelated pairs) and hands each observation to `f`.
pub fn for_each_probe(n: u64, order: &'static str, f: &(dyn Fn(&LanguageIdentifier, &LanguageIdentifier, &Value, &mut Stats) + Sync)) -> Stats {
    let p = pool();
    let total = (p.len() * p.len()) as u64;
    let n = n.min(total);
    let mut st = par_range(n, |i, st| {
        // stride co-prime with the pool size squared spreads the sample; every 7th probe is a self pair
        let k = if i % 7 == 0 { (i % p.len() as u64) * (p.len() as u64 + 1) } else { (i * 7919) % total };
        let (a, b) = (&p[(k / p.len() as u64) as usize], &p[(k % p.len() as u64) as usize]);
        st.eval();
        match probe(a, b, order) {
            Ok(obs) => f(a, b, &obs, st),
            Err(e) => st.class(&format!("cold-probe-not-run: {}", e.chars().take(60).collect::<String>())),
        }
    });
    st.subspace(&format!("cold-start probes: one fresh process per pair of raw-constructed identifiers, '{order}'"), n, false);
    st
}

pub fn replay_pair(case: &Value) -> Option<(LanguageIdentifier, LanguageIdentifier, String)> {
    if case["kind"] != "cold-pair" {
        return None;
    }
    Some((case["a"].as_str()?.parse().ok()?, case["b"].as_str()?.parse().ok()?, case["order"].as_str()?.to_string()))
}

/// C11 clause: the wildcard formula on values that no parser call preceded
pub fn check_matches(a: &LanguageIdentifier, b: &LanguageIdentifier, obs: &Value, st: &mut Stats, order: &str) {
    let (ma, mb) = (crate::obs::obs_langid(a), crate::obs::obs_langid(b));
    let case = || pair_case(a, b, order);
    let flags = [(false, false), (true, false), (false, true), (true, true)];
    let got: Vec<bool> = obs["matches"].as_array().map(|v| v.iter().filter_map(|x| x.as_bool()).collect()).unwrap_or_default();
    if got.len() != 4 {
        st.class("cold-probe-output-incomplete");
        return;
    }
    let mut varied = false;
    for (k, (ra, rb)) in flags.iter().enumerate() {
        let exp = crate::props::c11::expected(&ma, &mb, *ra, *rb);
        varied |= exp != crate::props::c11::expected(&ma, &mb, false, false);
        if got[k] != exp {
            st.fail(format!("cold-start:langid-matches:flags={}{}", *ra as u8, *rb as u8), case(), 10, format!("in a fresh process, before any parse: {a}.matches({b}, {ra}, {rb}) = {}, expected {exp} (values built with from_raw_parts_unchecked from the integers of parsed subtags)", got[k]));
        }
    }
    let le = ma.language.is_none() || ma.language == mb.language;
    if obs["lang_matches"].as_bool() != Some(le) {
        st.fail("cold-start:language-matches", case(), 10, format!("in a fresh process: Language {}.matches({}, true, false) = {:?}, expected {le}", a.language, b.language, obs["lang_matches"]));
    }
    if ma != mb && varied {
        st.class("cold-start: differs-and-flags-matter");
        st.count(Count::Hash, hash_str(&format!("cold|{a}|{b}")), case);
    }
}

/// C12 clause: ==, cmp, hash and the string on values that no parser call preceded
pub fn check_eq(a: &LanguageIdentifier, b: &LanguageIdentifier, obs: &Value, st: &mut Stats, order: &str) {
    let case = || pair_case(a, b, order);
    let (sa, sb) = (a.to_string(), b.to_string());
    if obs["a"].as_str() != Some(sa.as_str()) || obs["b"].as_str() != Some(sb.as_str()) {
        st.fail("cold-start:to_string", case(), 10, format!("in a fresh process the raw-constructed values print {:?} / {:?}; the parsed originals print {sa:?} / {sb:?}", obs["a"], obs["b"]));
        return;
    }
    let same = sa == sb;
    let (eq, cmp, heq) = (obs["eq"].as_bool(), obs["cmp"].as_str().unwrap_or("?"), obs["hash_eq"].as_bool());
    if eq != Some(same) {
        st.fail("cold-start:eq-vs-string", case(), 10, format!("in a fresh process, before any parse: ({sa} == {sb}) = {eq:?} although the strings are {}", if same { "identical" } else { "different" }));
    }
    if (cmp == "Equal") != same || (same && heq != Some(true)) {
        st.fail("cold-start:cmp-or-hash-vs-string", case(), 10, format!("in a fresh process: cmp = {cmp}, hashes equal = {heq:?}, strings {}", if same { "identical" } else { "different" }));
    }
    let exp_cmp = format!("{:?}", a.cmp(b));
    if cmp != exp_cmp {
        st.fail("cold-start:cmp-differs-from-warm-process", case(), 10, format!("cmp({sa}, {sb}) = {cmp} in a fresh process, {exp_cmp} after parsing"));
    }
    if obs["a_eq_str"].as_bool() != Some(true) || obs["reparse_a"].as_bool() != Some(true) {
        st.fail("cold-start:eq-str-or-reparse", case(), 10, format!("in a fresh process: value == its own text: {:?}; parse(text) == value: {:?}", obs["a_eq_str"], obs["reparse_a"]));
    }
    let hv: Vec<bool> = obs["has_variant"].as_array().map(|v| v.iter().filter_map(|x| x.as_bool()).collect()).unwrap_or_default();
    let exp_hv: Vec<bool> = b.variants().map(|v| a.has_variant(*v)).collect();
    if hv != exp_hv {
        st.fail("cold-start:has_variant", case(), 10, format!("{sa}.has_variant(each variant of {sb}) = {hv:?} in a fresh process, {exp_hv:?} after parsing"));
    }
    if sa != sb {
        st.class("cold-start: distinct pair");
    }
    st.count(Count::Hash, hash_str(&format!("cold-eq|{sa}|{sb}")), case);
}
