//! C03 — Locale parsing accepts all well-formed locale ids and never silently drops input.

use crate::model::{self, Zone};
use crate::obs;
use crate::props::spaces;
use crate::run::*;
use serde_json::Value;
use std::collections::BTreeSet;
use std::str::FromStr;
use unic_locale::Locale;

pub const RULE: &str = "Domain: bounded-exhaustive token sequences (full boundary alphabet to 3 | 4 subtags; 'en-' + 27-token locale alphabet to 4 | 5 further subtags; 'en-' + 12-token core alphabet to 6 | 7 further subtags, so that tfields followed by another extension lie inside the exhaustive region), proptest-generated well-formed locales with every extension shape, both u/t orders, random case/separator masks (G2), 1-3-edit near misses (G3), weighted raw bytes (G4), CLDR locale names with extension suffixes (G5). Oracle: independent three-zone classifier (must-accept with expected value / either with expected value if accepted / must-reject), cross-checked against a regex formulation on every input, plus token conservation. Duplicate keyword/tfield keys are out of scope and only counted. Non-trivial = the input has a one-byte subtag after the first subtag (an extension singleton is in play), or it is must-reject with a well-formed language-id prefix. Enumerated cases distinct by construction; generated ones counted through a hash set.";

fn lower_tokens(b: &[u8]) -> BTreeSet<String> {
    model::split(b).iter().map(|t| model::lower(t)).collect()
}

pub fn check(b: &[u8], st: &mut Stats, mode: Count) {
    netted(st, || bytes_case(b), b.len(), |st| check_inner(b, st, mode));
}

fn check_inner(b: &[u8], st: &mut Stats, mode: Count) {
    st.eval();
    if let Err(e) = model::self_check(b) {
        st.oracle_error(e);
        return;
    }
    let zone = model::ref_locale(b);
    let toks = model::split(b);
    let has_singleton = toks.iter().skip(1).any(|t| t.len() == 1);
    let nontrivial = has_singleton || (matches!(zone, Zone::MustReject(_)) && model::is_language(toks[0]));
    match &zone {
        Zone::MustAccept(m, p) => {
            st.class("zone:must-accept");
            if p.n_ext > 0 {
                st.class("must-accept:with-extension");
            }
            let it = p.order.iter().position(|c| *c == 't');
            let iu = p.order.iter().position(|c| *c == 'u');
            let ix = p.order.iter().position(|c| *c == 'x');
            if !m.tfields.is_empty() && (iu.map_or(false, |u| u > it.unwrap()) || ix.is_some()) {
                st.class("key:t-fields-then-u/x");
            }
            if let (Some(t), Some(u)) = (it, iu) {
                if u < t {
                    st.class("key:u-then-t");
                }
            }
            if m.private.iter().any(|t| t == "u" || t == "t" || t == "x") {
                st.class("key:x-containing-singleton-letters");
            }
        }
        Zone::Either(_, why) => {
            st.class(&format!("zone:either:{why}"));
        }
        Zone::MustReject(why) => {
            st.class("zone:must-reject");
            if why == "repeated-singleton" {
                st.class("key:repeated-singleton");
            }
            if has_singleton && why.starts_with("expected-singleton:len") {
                st.class("key:leftover-subtag-after-extension");
            }
        }
        Zone::OutOfScope => {
            st.class("zone:out-of-scope(duplicate-key)");
        }
    }
    if nontrivial {
        st.count(mode, hash_bytes(b), || bytes_case(b));
    }
    let case = || bytes_case(b);
    let r = match guard(|| Locale::from_bytes(b)) {
        Ok(r) => r,
        Err(p) => {
            st.fail(panic_sig(&p), case(), b.len(), format!("Locale::from_bytes panicked: {p:?}"));
            return;
        }
    };
    if let Err(e) = &r {
        let _ = format!("{e} {e:?}");
    }
    let compare = |st: &mut Stats, loc: &Locale, m: &model::LocaleModel, zone_name: &str| {
        let o = obs::obs_locale(loc);
        if o.has_lone_true() {
            st.fail(format!("{zone_name}:keeps-lone-true"), case(), b.len(), format!("value {o:?}"));
        }
        if o.without_true() != m.without_true() {
            let what = if o.id != m.id {
                "id"
            } else if o.attrs != m.attrs {
                "attributes"
            } else if o.without_true().keywords != m.without_true().keywords {
                "keywords"
            } else if o.tlang != m.tlang {
                "tlang"
            } else if o.without_true().tfields != m.without_true().tfields {
                "tfields"
            } else {
                "private"
            };
            st.fail(
                format!("{zone_name}:value-mismatch:{what}"),
                case(),
                b.len(),
                format!("parsed value prints {:?}; expected value prints {:?}", loc.to_string(), model::canon_locale(m)),
            );
        }
    };
    match (&zone, &r) {
        (Zone::MustAccept(m, p), Err(e)) => {
            let order: String = p.order.iter().collect();
            let it = p.order.iter().position(|c| *c == 't');
            let t_then_more = !m.tfields.is_empty() && it.map_or(false, |i| i + 1 < p.order.len());
            st.fail(
                if t_then_more {
                    "rejects-wellformed:tfields-followed-by-extension".to_string()
                } else {
                    format!("rejects-wellformed:ext-order={order}")
                },
                case(),
                b.len(),
                format!("Locale::from_bytes -> Err({e:?}); well-formed, canonical form {}", model::canon_locale(m)),
            );
        }
        (Zone::MustAccept(m, _), Ok(loc)) => {
            compare(st, loc, m, "must-accept");
            // token conservation (independent of the grammar code)
            let out = lower_tokens(loc.to_string().as_bytes());
            let inp = lower_tokens(b);
            if !out.is_subset(&inp) {
                st.fail("conservation:output-invents-subtag", case(), b.len(), format!("output {:?}", loc.to_string()));
            }
            let lost: Vec<&String> = inp.difference(&out).collect();
            if lost.iter().any(|t| *t != "true") {
                st.fail("conservation:input-subtag-dropped", case(), b.len(), format!("output {:?} lost {lost:?}", loc.to_string()));
            }
        }
        (Zone::Either(m, _), Ok(loc)) => compare(st, loc, m, "either"),
        (Zone::Either(_, _), Err(_)) => {}
        (Zone::MustReject(why), Ok(loc)) => {
            st.fail(
                format!("accepts-illformed:{}", why.split(':').next().unwrap_or("")),
                case(),
                b.len(),
                format!("Locale::from_bytes -> Ok({:?}) although the input is ill-formed ({why})", loc.to_string()),
            );
        }
        (Zone::MustReject(_), Err(_)) => {}
        (Zone::OutOfScope, _) => {}
    }
    // other entry points agree with from_bytes
    match guard(|| unic_locale::parser::parse_locale(b)) {
        Err(p) => st.fail(panic_sig(&p), case(), b.len(), "parse_locale panicked"),
        Ok(p2) => {
            if p2.is_ok() != r.is_ok() || (p2.is_ok() && p2.as_ref().ok() != r.as_ref().ok()) {
                st.fail("entrypoints-disagree:parse_locale", case(), b.len(), format!("{p2:?} vs {r:?}"));
            }
        }
    }
    if let Ok(s) = std::str::from_utf8(b) {
        match guard(|| Locale::from_str(s)) {
            Err(p) => st.fail(panic_sig(&p), case(), b.len(), "from_str panicked"),
            Ok(f) => {
                if f.is_ok() != r.is_ok() || (f.is_ok() && f.as_ref().ok() != r.as_ref().ok()) {
                    st.fail("entrypoints-disagree:from_str", case(), b.len(), format!("{f:?} vs {r:?}"));
                }
            }
        }
    }
}

pub fn run(cfg: &Cfg) -> Stats {
    spaces::locale_space(cfg, "c03", &check)
}

pub fn replay(case: &Value, st: &mut Stats) {
    if let Some(b) = case_bytes(case) {
        check(&b, st, Count::Hash);
    }
}
