//! G8: pools of reachable *values* (Locale / LanguageIdentifier) with the route that built
//! them, shared by C04, C05, C12, C13, C17. Routes: parsing an accepted input, from_parts
//! over valid subtags (variants permuted / duplicated / odd case, extensions parsed from a
//! string or absent), histories of public mutations (library only).

use crate::gen::{self, Ast};
use crate::ops::{self, Op};
use crate::props::spaces::{ByteCheck, Driver};
use crate::run::*;
use proptest::collection::vec;
use proptest::prelude::*;
use proptest::strategy::SBoxedStrategy;
use serde_json::{json, Value};
use unic_locale::extensions::ExtensionsMap;
use unic_locale::subtags::{Language, Region, Script, Variant};
use unic_locale::Locale;

#[derive(Clone, Debug)]
pub struct Parts {
    pub lang: String,
    pub script: Option<String>,
    pub region: Option<String>,
    pub variants: Vec<String>,
    pub ext: Option<String>,
}

pub const VARIANT_POOL: &[&str] = &["valencia", "1abc", "macos", "abcde", "12345", "1901", "1996", "aaaaa", "bbbbb", "VALENCIA", "1ABC"];

fn s_variant_pool() -> SBoxedStrategy<String> {
    prop_oneof![
        3 => proptest::sample::select(VARIANT_POOL.to_vec()).prop_map(|s| s.to_string()),
        1 => gen::s_variant(),
    ]
    .sboxed()
}

pub fn ext_string(a: &Ast, leading_dash: bool) -> Option<String> {
    let toks = a.tokens();
    let mut id = vec![];
    a.id.tokens(&mut id);
    let rest = &toks[id.len()..];
    if rest.is_empty() {
        return None;
    }
    let s = String::from_utf8_lossy(&gen::render_tokens(&rest.to_vec(), a.case_mask, a.sep_mask)).to_string();
    Some(if leading_dash { format!("-{s}") } else { s })
}

pub fn s_parts() -> SBoxedStrategy<Parts> {
    (
        gen::s_language(),
        proptest::option::weighted(0.5, gen::s_script()),
        proptest::option::weighted(0.5, gen::s_region()),
        vec(s_variant_pool(), 0..=5),
        proptest::option::weighted(0.6, gen::s_ast()),
        any::<bool>(),
        any::<u64>(),
    )
        .prop_map(|(lang, script, region, variants, ast, dash, cm)| {
            let up = |s: String, bit: u32| if (cm >> bit) & 1 == 1 { s.to_ascii_uppercase() } else { s };
            Parts {
                lang: up(lang, 0),
                script: script.map(|s| up(s, 1)),
                region: region.map(|s| up(s, 2)),
                variants,
                ext: ast.and_then(|a| ext_string(&a, dash)),
            }
        })
        .sboxed()
}

pub fn parts_case(p: &Parts) -> Value {
    json!({"kind": "parts", "language": p.lang, "script": p.script, "region": p.region, "variants": p.variants, "ext": p.ext})
}

pub fn parts_from_case(c: &Value) -> Option<Parts> {
    Some(Parts {
        lang: c["language"].as_str()?.to_string(),
        script: c["script"].as_str().map(|s| s.to_string()),
        region: c["region"].as_str().map(|s| s.to_string()),
        variants: c["variants"].as_array()?.iter().filter_map(|v| v.as_str().map(|s| s.to_string())).collect(),
        ext: c["ext"].as_str().map(|s| s.to_string()),
    })
}

pub struct Built {
    pub language: Language,
    pub script: Option<Script>,
    pub region: Option<Region>,
    pub variants: Vec<Variant>,
    pub ext: Option<ExtensionsMap>,
}

pub fn parse_parts(p: &Parts) -> Option<Built> {
    Some(Built {
        language: p.lang.parse().ok()?,
        script: match &p.script {
            Some(s) => Some(s.parse().ok()?),
            None => None,
        },
        region: match &p.region {
            Some(s) => Some(s.parse().ok()?),
            None => None,
        },
        variants: p.variants.iter().map(|v| v.parse()).collect::<Result<Vec<Variant>, _>>().ok()?,
        ext: match &p.ext {
            Some(e) => Some(e.parse::<ExtensionsMap>().ok()?),
            None => None,
        },
    })
}

pub fn build_parts(p: &Parts) -> Option<Locale> {
    let b = parse_parts(p)?;
    Some(Locale::from_parts(b.language, b.script, b.region, &b.variants, b.ext))
}

/// library-only interpreter of a history; None if the start is not accepted or a step panics
pub fn run_history(start: &[u8], ops_: &[Op]) -> Option<Locale> {
    let mut loc = if start.is_empty() { Locale::default() } else { guard(|| Locale::from_bytes(start)).ok()?.ok()? };
    for op in ops_ {
        guard(|| ops::apply_lib(&mut loc, op)).ok()?;
    }
    Some(loc)
}

/// Rebuild the value a replay file describes.
pub fn value_from_case(c: &Value) -> Option<Locale> {
    match c["kind"].as_str()? {
        "bytes" => {
            let b = case_bytes(c)?;
            guard(|| Locale::from_bytes(&b)).ok()?.ok()
        }
        "parts" => build_parts(&parts_from_case(c)?),
        "ops" => {
            let (s, o) = ops::history_from_case(c)?;
            run_history(&s, &o)
        }
        _ => None,
    }
}

pub type ValueCheck<'a> = dyn Fn(&Locale, &Value, &mut Stats, Count) + Sync + Send + 'a;

/// Drive `f` over every value source. `f(value, case, stats, count_mode)`; `route` is in the case.
pub fn for_each_value(cfg: &Cfg, tag: &str, f: &ValueCheck<'_>) -> Stats {
    // 1. parsed values: a locale-shaped byte space in which most inputs are accepted
    let byte_f = |b: &[u8], st: &mut Stats, mode: Count| {
        if let Ok(Ok(loc)) = guard(|| Locale::from_bytes(b)) {
            f(&loc, &bytes_case(b), st, mode);
        } else {
            st.class("input-not-accepted(skipped)");
        }
    };
    let bf: &ByteCheck<'_> = &byte_f;
    let mut d = Driver::new(bf);
    let loc_alpha = gen::locale_alphabet();
    let core = gen::core_alphabet();
    for k in 1..=cfg.pick(3, 4) {
        d.enumerate(&format!("parsed: 'en-' + locale alphabet ({} tokens), {k} subtags", loc_alpha.len()), &loc_alpha, k, b'-', b"en-");
    }
    for k in 4..=cfg.pick(5, 6) {
        d.enumerate(&format!("parsed: 'en-' + core alphabet ({} tokens), {k} subtags", core.len()), &core, k, b'-', b"en-");
    }
    // whatever the library accepts is a reachable value, whether or not it should have been
    // accepted: prefix-free token sequences and near misses let such inputs in too
    let full = gen::full_alphabet();
    for k in 1..=cfg.pick(2, 3) {
        d.enumerate(&format!("parsed: full boundary alphabet ({} tokens), {k} subtags, no prefix", full.len()), &full, k, b'-', b"");
    }
    for k in 3..=cfg.pick(3, 4) {
        d.enumerate(&format!("parsed: locale alphabet ({} tokens), {k} subtags, no prefix", loc_alpha.len()), &loc_alpha, k, b'-', b"");
    }
    let n = cfg.pick(500_000, 4_000_000);
    d.strategy("parsed: G3 near-miss mutations of well-formed locales, the accepted ones (proptest)", &gen::s_near_miss(), cfg.seed, &format!("{tag}-g3"), n / 2, |b| b.clone());
    d.strategy("parsed: G2 well-formed locales (proptest)", &gen::s_ast(), cfg.seed, &format!("{tag}-g2"), n, |a| a.render());
    d.strategy("parsed: G2 long locales (many variants, keywords, private tags; proptest)", &gen::s_locale_long_bytes(), cfg.seed, &format!("{tag}-g2long"), n / 10, |b| b.clone());
    d.strategy("parsed: G2 huge locales (20-150 attributes / keywords / tfields / private tags; proptest)", &gen::s_locale_huge_bytes(), cfg.seed, &format!("{tag}-g2huge"), n / 64, |b| b.clone());
    d.after_neighbours("parsed: G2 locales, each value checked right after the value of every one-character neighbour (hidden state; proptest)", &gen::s_ast(), cfg.seed, &format!("{tag}-nb"), n / 8, |a| a.render());
    let c = gen::corpus(&cfg.repo);
    let mut all: Vec<Vec<u8>> = vec![];
    for nme in c.locale_names.iter() {
        for suf in gen::EXT_SUFFIXES {
            all.push(format!("{nme}{suf}").into_bytes());
        }
    }
    d.list("parsed: G5 CLDR locale names x extension suffixes", &all);
    d.list("parsed: inputs with a well-formed extension other than t / u / x in every position (values only if the library accepts them)", &gen::other_ext_inputs());
    let mut total = d.total;
    // 2. from_parts
    let n2 = cfg.pick(400_000, 3_000_000);
    let s = run_strategy(&s_parts(), cfg.seed, &format!("{tag}-parts"), n2, |p, st| match build_parts(p) {
        Some(loc) => f(&loc, &parts_case(p), st, Count::Hash),
        None => st.class("parts-not-accepted(skipped)"),
    });
    total = total.merge(s);
    total.subspace("from_parts over valid subtags, variants permuted/duplicated, extension string parsed (proptest)", n2, false);
    // 3. histories (end states)
    let n3 = cfg.pick(150_000, 1_000_000);
    let s = run_strategy(&crate::props::c10::s_history(), cfg.seed, &format!("{tag}-hist"), n3, |(start, ops_), st| match run_history(start, ops_) {
        Some(loc) => f(&loc, &ops::history_case(start, ops_), st, Count::Hash),
        None => st.class("history-start-not-accepted(skipped)"),
    });
    total = total.merge(s);
    total.subspace("end states of G7 mutation histories (proptest)", n3, false);
    // end states of bulk histories: large values that no parsed input of this run produced
    // (collections of several dozen entries, printed forms beyond 255 / 1024 bytes)
    let n4 = cfg.pick(4_000, 80_000);
    let s = run_strategy(&crate::props::c10::s_bulk_history(), cfg.seed, &format!("{tag}-bulk"), n4, |(start, ops_), st| match run_history(start, ops_) {
        Some(loc) => {
            if loc.to_string().len() > 255 {
                st.class("value: printed form longer than 255 bytes");
            }
            f(&loc, &ops::history_case(start, ops_), st, Count::Hash)
        }
        None => st.class("history-start-not-accepted(skipped)"),
    });
    total = total.merge(s);
    total.subspace("end states of G7 bulk histories (40-160 operations on one collection; proptest)", n4, false);
    // from_parts with long variant lists (20-60 variants, printed form of several hundred bytes)
    let n5 = cfg.pick(4_000, 80_000);
    let long_parts = (s_parts(), vec(s_variant_pool(), 20..=60)).prop_map(|(mut p, vs)| {
        p.variants = vs;
        p
    });
    let s = run_strategy(&long_parts, cfg.seed, &format!("{tag}-longparts"), n5, |p, st| match build_parts(p) {
        Some(loc) => {
            if loc.to_string().len() > 255 {
                st.class("value: printed form longer than 255 bytes");
            }
            f(&loc, &parts_case(p), st, Count::Hash)
        }
        None => st.class("parts-not-accepted(skipped)"),
    });
    total = total.merge(s);
    total.subspace("from_parts with 20-60 variants (proptest)", n5, false);
    // every CLDR likely-subtags key and value, maximized / minimized: values that only the table
    // look-ups produce (a table row that stores `und` as text instead of the empty language ...)
    {
        let mut lk: Vec<Vec<u8>> = c.likely_keys.iter().chain(c.likely_vals.iter()).map(|s| s.as_bytes().to_vec()).collect();
        // and every two- and three-letter language, whether CLDR knows it or not (a table row that
        // the data do not contain shows only when its key is asked for)
        for a in b'a'..=b'z' {
            for b in b'a'..=b'z' {
                lk.push(vec![a, b]);
                for c3 in b'a'..=b'z' {
                    lk.push(vec![a, b, c3]);
                }
            }
        }
        lk.sort();
        lk.dedup();
        let n6 = lk.len() as u64 * 3;
        let s = par_range(n6, |i, st| {
            let start = &lk[(i / 3) as usize];
            let ops_: Vec<Op> = match i % 3 {
                0 => vec![Op::Maximize],
                1 => vec![Op::Minimize],
                _ => vec![Op::Maximize, Op::Minimize],
            };
            match run_history(start, &ops_) {
                Some(loc) => f(&loc, &ops::history_case(start, &ops_), st, Count::Hash),
                None => st.class("history-start-not-accepted(skipped)"),
            }
        });
        total = total.merge(s);
        total.subspace("every CLDR likelySubtags key and value and every two- / three-letter language after maximize / minimize / both", n6, true);
    }
    // exhaustive short histories
    let alpha = ops::op_alphabet();
    let na = alpha.len() as u64;
    for len in 1..=cfg.pick(2u32, 3u32) {
        let cnt = na.pow(len);
        let s = par_range(cnt, |mut i, st| {
            let mut seq = Vec::with_capacity(len as usize);
            for _ in 0..len {
                seq.push(alpha[(i % na) as usize].clone());
                i /= na;
            }
            for start in [&b""[..], crate::props::c10::FIXED_START] {
                if let Some(loc) = run_history(start, &seq) {
                    f(&loc, &ops::history_case(start, &seq), st, Count::Hash);
                }
            }
        });
        total = total.merge(s);
        total.subspace(&format!("end states of all {len}-operation histories over the 30-operation alphabet, two start states"), cnt * 2, true);
    }
    total
}

/// A sink that fails once more than `cap` bytes have been offered (keeps what fitted).
pub struct LimitedSink {
    pub cap: usize,
    pub got: String,
}
impl std::fmt::Write for LimitedSink {
    fn write_str(&mut self, s: &str) -> std::fmt::Result {
        if self.got.len() + s.len() > self.cap {
            let mut room = self.cap - self.got.len();
            while room > 0 && !s.is_char_boundary(room) {
                room -= 1;
            }
            self.got.push_str(&s[..room]);
            return Err(std::fmt::Error);
        }
        self.got.push_str(s);
        Ok(())
    }
}

/// Hidden state across `Display` calls: format the value, its id and its extensions into sinks
/// that fail at once / half-way / one byte short. Returns a description if what reached a sink is
/// not a prefix of `full` (the complete rendering); the caller then compares a fresh `to_string()`
/// with the earlier one - a buffer that is cleaned up on the success path only shows there.
pub fn poison_display(loc: &Locale, full: &str) -> Option<String> {
    use std::fmt::Write;
    let mut bad = None;
    for cap in [0usize, full.len() / 2, full.len().saturating_sub(1)] {
        let mut w = LimitedSink { cap, got: String::new() };
        let r = write!(w, "{loc}");
        if !full.starts_with(&w.got) || (r.is_ok() && w.got != full) {
            bad = Some(format!("write!(sink failing after {cap} bytes, locale) delivered {:?} (result {r:?}); the complete rendering is {full:?}", w.got));
        }
        let mut w = LimitedSink { cap: cap.min(2), got: String::new() };
        let _ = write!(w, "{}", loc.id);
        let mut w = LimitedSink { cap: cap.min(3), got: String::new() };
        let _ = write!(w, "{}", loc.extensions);
    }
    bad
}

pub fn case_route(c: &Value) -> &str {
    c["kind"].as_str().unwrap_or("?")
}

pub fn case_size(c: &Value) -> usize {
    match c["kind"].as_str() {
        Some("bytes") => case_bytes(c).map_or(0, |b| b.len()),
        Some("ops") => c["ops"].as_array().map_or(0, |a| a.len()) * 100 + c["start"].as_str().map_or(0, |s| s.len()),
        _ => c.to_string().len(),
    }
}
