//! Generators: boundary-class token alphabets with exhaustive enumeration (G1), grammar
//! strategies over an AST (G2), near-miss mutation (G3), weighted raw bytes (G4), the CLDR
//! corpus (G5).

use proptest::collection::{btree_map, vec};
use proptest::prelude::*;
use proptest::sample::Index;
use std::path::Path;

// ------------------------------------------------------------------------------------------
// G1: token alphabets

pub fn full_alphabet() -> Vec<Vec<u8>> {
    let letters = b"abcdefghi";
    let digits = b"123456789";
    let mut v: Vec<Vec<u8>> = vec![vec![]];
    for len in 1..=9usize {
        v.push(letters[..len].to_vec());
        v.push(digits[..len].to_vec());
        if len >= 2 {
            let mut t = vec![b'1'];
            t.extend_from_slice(&letters[..len - 1]);
            v.push(t);
            let mut t = letters[..len - 1].to_vec();
            t.push(b'1');
            v.push(t);
            let t: Vec<u8> = letters[..len]
                .iter()
                .enumerate()
                .map(|(i, c)| if i % 2 == 0 { c.to_ascii_uppercase() } else { *c })
                .collect();
            v.push(t);
        }
    }
    for w in [
        "und", "UND", "true", "root", "t", "u", "x", "T", "U", "X", "A", "0", "z", "ca", "nu", "1a", "h0", "k0", "0h",
        "US", "en", "Latn", "latn", "001", "1abc", "valencia", "*", "a.b", "en*", " ", "ab cd", "a b",
    ] {
        v.push(w.as_bytes().to_vec());
    }
    for w in [
        &b"\0"[..],
        &b"ab\0"[..],
        &b"\x7f"[..],
        &b"\x80"[..],
        &b"ab\xff"[..],
        &b"\xc3\x81\xc3\x81"[..],
        &b"abcde\xc3\x81"[..],
    ] {
        v.push(w.to_vec());
    }
    v.sort();
    v.dedup();
    v
}

/// 27-token alphabet aimed at the locale grammar
pub fn locale_alphabet() -> Vec<Vec<u8>> {
    [
        "en", "und", "latn", "us", "001", "valencia", "1abc", "t", "u", "x", "a", "0", "ca", "nu", "h0",
        "k0", "foo", "true", "abcdefgh", "toolongxx", "", "EN", "a.b", "1a", "fr", "T", "truest",
    ]
    .iter()
    .map(|s| s.as_bytes().to_vec())
    .collect()
}

/// 12-token core, used to depth 6/7 so that `en-t-h0-foo-u-ca` is inside the exhaustive region
pub fn core_alphabet() -> Vec<Vec<u8>> {
    ["en", "t", "u", "x", "h0", "foo", "ca", "us", "latn", "a", "", "toolongxx"]
        .iter()
        .map(|s| s.as_bytes().to_vec())
        .collect()
}

/// language-identifier alphabet for C02/C13
pub fn langid_alphabet() -> Vec<Vec<u8>> {
    let mut v: Vec<Vec<u8>> = vec![];
    let letters = b"abcdefghi";
    let digits = b"123456789";
    for len in 0..=9usize {
        v.push(letters[..len].to_vec());
        if len > 0 {
            v.push(digits[..len].to_vec());
        }
        if len >= 2 {
            let mut t = vec![b'1'];
            t.extend_from_slice(&letters[..len - 1]);
            v.push(t);
            let mut t = letters[..len - 1].to_vec();
            t.push(b'1');
            v.push(t);
        }
    }
    for w in ["und", "UND", "EN", "Latn", "LATN", "us", "VALENCIA", "a.b", "abc.e", "ab cd", "1.bc", "u", "x"] {
        v.push(w.as_bytes().to_vec());
    }
    v.push(b"ab\x80".to_vec());
    v.push(b"\xc3\x81\xc3\x81".to_vec());
    v.push(b"abc\0".to_vec());
    v.sort();
    v.dedup();
    v
}

pub fn pow(n: usize, d: u32) -> u64 {
    (n as u64).pow(d)
}

/// idx-th sequence of exactly `depth` tokens, joined with `sep` (or alternating when sep==0)
pub fn nth_seq(alpha: &[Vec<u8>], depth: u32, mut idx: u64, sep: u8, out: &mut Vec<u8>) {
    out.clear();
    let n = alpha.len() as u64;
    for d in 0..depth {
        let t = &alpha[(idx % n) as usize];
        idx /= n;
        if d > 0 {
            out.push(if sep == 0 {
                if d % 2 == 0 {
                    b'-'
                } else {
                    b'_'
                }
            } else {
                sep
            });
        }
        out.extend_from_slice(t);
    }
}

// ------------------------------------------------------------------------------------------
// G2: grammar strategies

#[derive(Clone, Debug, PartialEq, Eq)]
pub struct LangAst {
    pub lang: String,
    pub script: Option<String>,
    pub region: Option<String>,
    pub variants: Vec<String>,
}

#[derive(Clone, Debug, PartialEq, Eq)]
pub struct Ast {
    pub id: LangAst,
    pub attrs: Vec<String>,
    pub kws: Vec<(String, Vec<String>)>,
    pub tlang: Option<LangAst>,
    pub tfields: Vec<(String, Vec<String>)>,
    pub private: Vec<String>,
    pub u_first: bool,
    pub case_mask: u64,
    pub sep_mask: u64,
}

impl LangAst {
    pub fn tokens(&self, out: &mut Vec<String>) {
        out.push(self.lang.clone());
        if let Some(s) = &self.script {
            out.push(s.clone());
        }
        if let Some(s) = &self.region {
            out.push(s.clone());
        }
        out.extend(self.variants.iter().cloned());
    }
}

impl Ast {
    pub fn has_u(&self) -> bool {
        !self.attrs.is_empty() || !self.kws.is_empty()
    }
    pub fn has_t(&self) -> bool {
        self.tlang.is_some() || !self.tfields.is_empty()
    }
    pub fn tokens(&self) -> Vec<String> {
        let mut out = vec![];
        self.id.tokens(&mut out);
        let u = |out: &mut Vec<String>| {
            if self.has_u() {
                out.push("u".into());
                out.extend(self.attrs.iter().cloned());
                for (k, vs) in &self.kws {
                    out.push(k.clone());
                    out.extend(vs.iter().cloned());
                }
            }
        };
        let t = |out: &mut Vec<String>| {
            if self.has_t() {
                out.push("t".into());
                if let Some(tl) = &self.tlang {
                    tl.tokens(out);
                }
                for (k, vs) in &self.tfields {
                    out.push(k.clone());
                    out.extend(vs.iter().cloned());
                }
            }
        };
        if self.u_first {
            u(&mut out);
            t(&mut out);
        } else {
            t(&mut out);
            u(&mut out);
        }
        if !self.private.is_empty() {
            out.push("x".into());
            out.extend(self.private.iter().cloned());
        }
        out
    }
    pub fn render(&self) -> Vec<u8> {
        render_tokens(&self.tokens(), self.case_mask, self.sep_mask)
    }
    pub fn render_plain(&self) -> Vec<u8> {
        render_tokens(&self.tokens(), 0, 0)
    }
}

pub fn render_tokens(tokens: &[String], case_mask: u64, sep_mask: u64) -> Vec<u8> {
    let mut out = vec![];
    let mut letter = 0u32;
    for (i, t) in tokens.iter().enumerate() {
        if i > 0 {
            out.push(if (sep_mask >> ((i - 1) % 64)) & 1 == 1 { b'_' } else { b'-' });
        }
        for b in t.bytes() {
            if b.is_ascii_alphabetic() {
                let up = (case_mask >> (letter % 64)) & 1 == 1;
                out.push(if up { b.to_ascii_uppercase() } else { b.to_ascii_lowercase() });
                letter += 1;
            } else {
                out.push(b);
            }
        }
    }
    out
}

pub fn s_language() -> SBoxedStrategy<String> {
    prop_oneof![
        6 => "[a-z]{2,3}",
        2 => "[a-z]{5,8}",
        1 => Just("und".to_string()),
        1 => Just("en".to_string()),
        1 => "und[a-z]{2,5}",
        1 => "[a-z]{8}",
    ]
    .sboxed()
}
pub fn s_script() -> SBoxedStrategy<String> {
    prop_oneof![3 => "[a-z]{4}", 1 => Just("latn".to_string())].sboxed()
}
pub fn s_region() -> SBoxedStrategy<String> {
    prop_oneof![3 => "[a-z]{2}", 2 => "[0-9]{3}"].sboxed()
}
/// registered variant subtags (IANA registry / CLDR): code that special-cases a variant
/// (posix, valencia, the orthography years ...) only reacts to real ones
pub const REAL_VARIANTS: &[&str] = &[
    "posix", "valencia", "1901", "1996", "1994", "fonipa", "fonupa", "fonxsamp", "pinyin", "wadegile", "arevela", "arevmda", "baku1926", "tarask", "rozaj", "biske", "njiva",
    "osojs", "solba", "nedis", "polyton", "monoton", "scotland", "scouse", "ulster", "1606nict", "1694acad", "1959acad", "aluku", "ao1990", "bohoric", "boont", "colb1945",
    "cornu", "dajnko", "ekavsk", "ijekavsk", "emodeng", "hepburn", "heploc", "hognorsk", "itihasa", "jauer", "jyutping", "kkcor", "kscor", "laukika", "lipaw", "luna1918",
    "metelko", "ndyuka", "newfound", "nulik", "pamaka", "petr1708", "puter", "rigik", "rumgr", "surmiran", "sursilv", "sutsilv", "uccor", "ucrcor", "unifon", "vaidika",
    "vallader", "abl1943", "akuapem", "alalc97", "asante", "balanka", "barla", "basiceng", "bauddha", "bciav", "bcizbl", "blasl", "bornholm", "cisaup", "creiss", "fascia",
    "fodom", "gallo", "gascon", "grclass", "grital", "grmistr", "ivanchov", "kociewie", "lemosin", "lengadoc", "ltg1929", "ltg2007", "mdcegyp", "mdctrans", "nicard",
    "oxendict", "pahawh2", "pahawh3", "pahawh4", "peano", "pehoeji", "provenc", "simple", "spanglis", "synnejyl", "tailo", "tongyong", "tunumiit", "vecdruka", "vivaraup",
    "xsistemo", "macos", "windows",
];

pub fn s_variant() -> SBoxedStrategy<String> {
    prop_oneof![
        3 => "[0-9][a-z0-9]{3}",
        2 => proptest::sample::select(REAL_VARIANTS.to_vec()).prop_map(|s| s.to_string()),
        3 => "[a-z0-9]{5,8}",
        1 => "[a-z]{5,8}",
        1 => "[0-9]{4,8}",
        1 => "[a-c]{5}",
    ]
    .sboxed()
}
pub fn s_value() -> SBoxedStrategy<String> {
    prop_oneof![
        5 => "[a-z0-9]{3,8}",
        1 => "[a-z]{3}",
        1 => "[a-z]{4}",
        1 => "[0-9]{3}",
        1 => "[a-b]{3}",
        1 => Just("true".to_string()),
        // values that merely contain the droppable word (a test on part of the subtag - its first
        // four bytes, a prefix match - confuses them with it)
        1 => prop_oneof!["true[a-z0-9]{1,4}", "[a-z0-9]{1,4}true", "tru[a-df-z0-9]"],
    ]
    .sboxed()
}
pub fn s_key() -> SBoxedStrategy<String> {
    prop_oneof![4 => "[a-z0-9][a-z]", 1 => "[a-c][a-c]"].sboxed()
}
pub fn s_tkey() -> SBoxedStrategy<String> {
    prop_oneof![4 => "[a-z][0-9]", 1 => "[a-c][0-2]"].sboxed()
}
pub fn s_private() -> SBoxedStrategy<String> {
    prop_oneof![
        4 => "[a-z0-9]{1,8}",
        1 => "[utxa0]",
        1 => "[a-c]{1,2}",
    ]
    .sboxed()
}

pub fn s_langast(max_variants: usize) -> SBoxedStrategy<LangAst> {
    (
        s_language(),
        proptest::option::weighted(0.4, s_script()),
        proptest::option::weighted(0.5, s_region()),
        vec(s_variant(), 0..=max_variants),
    )
        .prop_map(|(lang, script, region, variants)| LangAst { lang, script, region, variants })
        .sboxed()
}

fn s_fields(key: SBoxedStrategy<String>, min_vals: usize, max: usize) -> SBoxedStrategy<Vec<(String, Vec<String>)>> {
    btree_map(key, vec(s_value(), min_vals..=3), 0..=max)
        .prop_map(|m| m.into_iter().collect::<Vec<_>>())
        .prop_shuffle()
        .sboxed()
}

/// Keywords and tfields as they occur in practice (CLDR bcp47 keys with typical values): the
/// generated alphabet soup rarely forms a pair such as rg-uszzzz or ca-islamic-civil, and code
/// that *interprets* a keyword (region override, subdivision, calendar, hour cycle ...) only
/// reacts to those.
pub const REAL_KEYWORDS: &[(&str, &[&str])] = &[
    ("ca", &["buddhist"]), ("ca", &["gregory"]), ("ca", &["islamic", "civil"]), ("ca", &["islamic", "umalqura"]), ("ca", &["japanese"]), ("ca", &["iso8601"]),
    ("cf", &["account"]), ("co", &["phonebk"]), ("co", &["pinyin"]), ("co", &["trad"]), ("co", &["search"]), ("co", &["standard"]),
    ("cu", &["usd"]), ("cu", &["eur"]), ("dx", &["latn"]), ("em", &["emoji"]), ("em", &["text"]), ("fw", &["mon"]), ("fw", &["sun"]),
    ("hc", &["h11"]), ("hc", &["h12"]), ("hc", &["h23"]), ("hc", &["h24"]), ("lb", &["strict"]), ("lb", &["loose"]), ("lw", &["breakall"]), ("lw", &["phrase"]),
    ("ms", &["metric"]), ("ms", &["ussystem"]), ("ms", &["uksystem"]), ("mu", &["celsius"]), ("mu", &["fahrenhe"]),
    ("nu", &["latn"]), ("nu", &["arab"]), ("nu", &["arabext"]), ("nu", &["thai"]), ("nu", &["hanidec"]), ("nu", &["fullwide"]),
    ("rg", &["uszzzz"]), ("rg", &["gbzzzz"]), ("rg", &["dezzzz"]), ("rg", &["cnzzzz"]), ("rg", &["pkzzzz"]), ("rg", &["zzzzzz"]),
    ("sd", &["usca"]), ("sd", &["gbsct"]), ("sd", &["usny"]), ("ss", &["none"]), ("ss", &["standard"]),
    ("tz", &["usnyc"]), ("tz", &["gblon"]), ("tz", &["utc"]), ("tz", &["uslax"]), ("va", &["posix"]),
    ("ka", &["shifted"]), ("ka", &["noignore"]), ("kb", &["true"]), ("kb", &["false"]), ("kc", &["true"]), ("kf", &["upper"]), ("kf", &["lower"]), ("kf", &["false"]),
    ("kh", &["true"]), ("kk", &["true"]), ("kn", &["true"]), ("kn", &["false"]), ("kn", &[]), ("kr", &["digit", "latn", "space"]), ("kr", &["currency", "symbol"]),
    ("ks", &["level1"]), ("ks", &["level2"]), ("ks", &["identic"]), ("kv", &["punct"]), ("kv", &["space"]), ("vt", &["0061", "0062"]),
];
pub const REAL_TFIELDS: &[(&str, &[&str])] = &[
    ("m0", &["ungegn"]), ("m0", &["bgn"]), ("m0", &["alaloc"]), ("m0", &["iso"]), ("s0", &["ascii"]), ("s0", &["accents"]), ("d0", &["fwidth"]), ("d0", &["hwidth"]),
    ("d0", &["npinyin"]), ("d0", &["ascii"]), ("i0", &["handwrit"]), ("i0", &["pinyin"]), ("i0", &["wubi"]), ("k0", &["osx"]), ("k0", &["windows"]), ("k0", &["dvorak"]),
    ("k0", &["colemak"]), ("k0", &["101key"]), ("k0", &["android"]), ("t0", &["und"]), ("h0", &["hybrid"]), ("x0", &["foo", "bar"]),
];

fn s_real(pool: &'static [(&'static str, &'static [&'static str])], max: usize) -> SBoxedStrategy<Vec<(String, Vec<String>)>> {
    vec(proptest::sample::select(pool.to_vec()), 1..=max)
        .prop_map(|v| {
            let mut seen = std::collections::BTreeSet::new();
            v.into_iter().filter(|(k, _)| seen.insert(*k)).map(|(k, vs)| (k.to_string(), vs.iter().map(|x| x.to_string()).collect())).collect()
        })
        .sboxed()
}

/// Well-formed locale AST (no duplicate keys; tfields carry >= 1 value)
pub fn s_ast() -> SBoxedStrategy<Ast> {
    (
        s_langast(3),
        prop_oneof![2 => Just(vec![]), 3 => vec(s_value(), 0..=3)],
        prop_oneof![2 => Just(vec![]), 6 => s_fields(s_key(), 0, 3), 1 => s_real(REAL_KEYWORDS, 3)],
        proptest::option::weighted(0.35, s_langast(2)),
        prop_oneof![3 => Just(vec![]), 6 => s_fields(s_tkey(), 1, 3), 1 => s_real(REAL_TFIELDS, 2)],
        prop_oneof![2 => Just(vec![]), 1 => vec(s_private(), 1..=4)],
        any::<bool>(),
        prop_oneof![2 => Just(0u64), 2 => any::<u64>(), 1 => Just(u64::MAX)],
        prop_oneof![3 => Just(0u64), 1 => any::<u64>()],
    )
        .prop_map(|(id, attrs, kws, tlang, tfields, private, u_first, case_mask, sep_mask)| Ast {
            id,
            attrs,
            kws,
            tlang,
            tfields,
            private,
            u_first,
            case_mask,
            sep_mask,
        })
        .sboxed()
}

/// language-identifier-only AST rendered to bytes
pub fn s_langid_bytes() -> SBoxedStrategy<Vec<u8>> {
    (
        s_langast(4),
        prop_oneof![2 => Just(0u64), 2 => any::<u64>(), 1 => Just(u64::MAX)],
        prop_oneof![3 => Just(0u64), 1 => any::<u64>()],
    )
        .prop_map(|(id, cm, sm)| {
            let mut t = vec![];
            id.tokens(&mut t);
            render_tokens(&t, cm, sm)
        })
        .sboxed()
}

/// long language identifiers: 5-16 variants (60-150 bytes), to cross any length-related limit
pub fn s_langid_long_bytes() -> SBoxedStrategy<Vec<u8>> {
    (
        s_language(),
        proptest::option::weighted(0.6, s_script()),
        proptest::option::weighted(0.6, s_region()),
        vec(s_variant(), 5..=16),
        prop_oneof![2 => Just(0u64), 2 => any::<u64>(), 1 => Just(u64::MAX)],
        prop_oneof![3 => Just(0u64), 1 => any::<u64>()],
    )
        .prop_map(|(lang, script, region, variants, cm, sm)| {
            let id = LangAst { lang, script, region, variants };
            let mut t = vec![];
            id.tokens(&mut t);
            render_tokens(&t, cm, sm)
        })
        .sboxed()
}

/// very long variant lists with certain repeats: 20-80 variants from a 12-element pool
/// (plus the odd generated one), random case / separator masks
pub fn s_langid_many_variants() -> SBoxedStrategy<Vec<u8>> {
    const POOL: &[&str] = &["valencia", "1abc", "macos", "1994", "1996", "rozaj", "biske", "nedis", "fonipa", "12345", "abcdefgh", "9zzz"];
    // 12 fixed + 60 numbered variants: long lists hold well over 32 distinct entries *and* repeats
    let mut pool: Vec<String> = POOL.iter().map(|s| s.to_string()).collect();
    for i in 0..60 {
        pool.push(format!("v{:04}", i * 37 % 1000));
    }
    let one = prop_oneof![
        12 => proptest::sample::select(pool),
        1 => s_variant(),
    ];
    (
        s_language(),
        proptest::option::weighted(0.5, s_script()),
        proptest::option::weighted(0.5, s_region()),
        vec(one, 20..=100),
        prop_oneof![2 => Just(0u64), 2 => any::<u64>()],
        prop_oneof![3 => Just(0u64), 1 => any::<u64>()],
    )
        .prop_map(|(lang, script, region, variants, cm, sm)| {
            let id = LangAst { lang, script, region, variants };
            let mut t = vec![];
            id.tokens(&mut t);
            render_tokens(&t, cm, sm)
        })
        .sboxed()
}

/// long locales: a long language identifier followed by many keywords / tfields / private tags
pub fn s_locale_long_bytes() -> SBoxedStrategy<Vec<u8>> {
    (s_ast(), vec(s_variant(), 4..=10), vec((s_key(), vec(s_value(), 1..=3)), 3..=8), vec(s_private(), 3..=10))
        .prop_map(|(mut a, vars, kws, private)| {
            a.id.variants.extend(vars);
            let mut seen = std::collections::BTreeSet::new();
            for (k, _) in &a.kws {
                seen.insert(k.clone());
            }
            for (k, v) in kws {
                if seen.insert(k.clone()) {
                    a.kws.push((k, v));
                }
            }
            a.private.extend(private);
            a.render()
        })
        .sboxed()
}

/// huge locales: 20-120 attributes, 20-150 keywords with distinct keys, 20-120 tfields with distinct
/// keys and 20-120 private tags (several hundred to a few thousand bytes): count- and
/// length-dependent limits (u8 counters, fixed-size scratch arrays, "sort only short lists")
pub fn s_locale_huge_bytes() -> SBoxedStrategy<Vec<u8>> {
    (
        s_langast(3),
        prop_oneof![1 => Just(0usize), 2 => 20usize..120],
        prop_oneof![1 => Just(0usize), 2 => 20usize..150],
        prop_oneof![1 => Just(0usize), 2 => 20usize..120],
        prop_oneof![1 => Just(0usize), 2 => 20usize..120],
        vec(s_value(), 120),
        any::<u64>(),
        any::<bool>(),
        prop_oneof![2 => Just(0u64), 1 => any::<u64>()],
    )
        .prop_map(|(id, na, nk, nt, np, vals, salt, u_first, cm)| {
            let mut toks: Vec<String> = vec![];
            id.tokens(&mut toks);
            let val = |i: usize| vals[i % vals.len()].clone();
            let mut u: Vec<String> = vec![];
            if na + nk > 0 {
                u.push("u".into());
                for i in 0..na {
                    u.push(val(i * 7 + 1));
                }
                // distinct keys in a scrambled order
                for i in 0..nk {
                    let k = ((i as u64 * 389 + salt) % 936) as usize;
                    let c0 = b"abcdefghijklmnopqrstuvwxyz0123456789"[k / 26] as char;
                    let c1 = (b'a' + (k % 26) as u8) as char;
                    let key: String = [c0, c1].iter().collect();
                    if u.iter().skip(1 + na).step_by(2).any(|x| *x == key) {
                        continue;
                    }
                    u.push(key);
                    u.push(val(i * 3));
                }
            }
            let mut t: Vec<String> = vec![];
            if nt > 0 {
                t.push("t".into());
                for i in 0..nt {
                    let k = ((i as u64 * 97 + salt) % 260) as usize;
                    let key: String = [(b'a' + (k / 10) as u8) as char, (b'0' + (k % 10) as u8) as char].iter().collect();
                    if t.iter().skip(1).step_by(2).any(|x| *x == key) {
                        continue;
                    }
                    t.push(key);
                    let mut v = val(i * 5 + 2);
                    if v == "true" {
                        v = "tru3".into();
                    }
                    t.push(v);
                }
            }
            if u_first {
                toks.extend(u);
                toks.extend(t);
            } else {
                toks.extend(t);
                toks.extend(u);
            }
            if np > 0 {
                toks.push("x".into());
                for i in 0..np {
                    toks.push(val(i * 11 + 3));
                }
            }
            render_tokens(&toks, cm, 0)
        })
        .sboxed()
}

// ------------------------------------------------------------------------------------------
// G3: near-miss mutation

#[derive(Clone, Debug)]
pub enum Edit {
    ReplaceByte(Index, u8),
    InsertByte(Index, u8),
    DeleteByte(Index),
    DeleteToken(Index),
    DupToken(Index),
    SwapTokens(Index, Index),
    TruncToken(Index),
    LengthenToken(Index, u8),
    InsertToken(Index, Index),
    MoveTokenToEnd(Index),
}

pub const INSERT_POOL: &[&str] = &[
    "", "u", "t", "x", "a", "0", "en", "fr", "und", "latn", "us", "001", "h0", "k0", "ca", "nu", "foo", "true",
    "toolongxx", "1abc", "valencia", "abcd", "a1b2c3d4e",
];

pub fn s_byte() -> SBoxedStrategy<u8> {
    prop_oneof![
        6 => b'a'..=b'z',
        2 => b'A'..=b'Z',
        3 => b'0'..=b'9',
        3 => Just(b'-'),
        1 => Just(b'_'),
        2 => proptest::sample::select(vec![b'.', b'*', b' ', 0u8, 0x7f, 0x80, 0xff, b'@', b'[', b'`', b'{', b'/', b':']),
        1 => any::<u8>(),
    ]
    .sboxed()
}

pub fn s_edit() -> SBoxedStrategy<Edit> {
    prop_oneof![
        (any::<Index>(), s_byte()).prop_map(|(i, b)| Edit::ReplaceByte(i, b)),
        (any::<Index>(), s_byte()).prop_map(|(i, b)| Edit::InsertByte(i, b)),
        any::<Index>().prop_map(Edit::DeleteByte),
        any::<Index>().prop_map(Edit::DeleteToken),
        any::<Index>().prop_map(Edit::DupToken),
        (any::<Index>(), any::<Index>()).prop_map(|(i, j)| Edit::SwapTokens(i, j)),
        any::<Index>().prop_map(Edit::TruncToken),
        (any::<Index>(), 1u8..=3).prop_map(|(i, n)| Edit::LengthenToken(i, n)),
        (any::<Index>(), any::<Index>()).prop_map(|(i, j)| Edit::InsertToken(i, j)),
        any::<Index>().prop_map(Edit::MoveTokenToEnd),
    ]
    .sboxed()
}

fn split_tokens(b: &[u8]) -> (Vec<Vec<u8>>, Vec<u8>) {
    let mut toks = vec![vec![]];
    let mut seps = vec![];
    for c in b {
        if *c == b'-' || *c == b'_' {
            seps.push(*c);
            toks.push(vec![]);
        } else {
            toks.last_mut().unwrap().push(*c);
        }
    }
    (toks, seps)
}
fn join_tokens(toks: &[Vec<u8>], seps: &[u8]) -> Vec<u8> {
    let mut out = vec![];
    for (i, t) in toks.iter().enumerate() {
        if i > 0 {
            out.push(*seps.get(i - 1).unwrap_or(&b'-'));
        }
        out.extend_from_slice(t);
    }
    out
}

pub fn apply_edit(b: &[u8], e: &Edit) -> Vec<u8> {
    let mut v = b.to_vec();
    match e {
        Edit::ReplaceByte(i, c) => {
            if !v.is_empty() {
                let k = i.index(v.len());
                v[k] = *c;
            }
        }
        Edit::InsertByte(i, c) => {
            let k = i.index(v.len() + 1);
            v.insert(k, *c);
        }
        Edit::DeleteByte(i) => {
            if !v.is_empty() {
                let k = i.index(v.len());
                v.remove(k);
            }
        }
        _ => {
            let (mut toks, mut seps) = split_tokens(&v);
            match e {
                Edit::DeleteToken(i) => {
                    if toks.len() > 1 {
                        let k = i.index(toks.len());
                        toks.remove(k);
                        if !seps.is_empty() {
                            seps.remove(k.min(seps.len() - 1));
                        }
                    }
                }
                Edit::DupToken(i) => {
                    let k = i.index(toks.len());
                    let t = toks[k].clone();
                    toks.insert(k, t);
                    seps.insert(k.min(seps.len()), b'-');
                }
                Edit::SwapTokens(i, j) => {
                    let a = i.index(toks.len());
                    let b2 = j.index(toks.len());
                    toks.swap(a, b2);
                }
                Edit::TruncToken(i) => {
                    let k = i.index(toks.len());
                    toks[k].pop();
                }
                Edit::LengthenToken(i, n) => {
                    let k = i.index(toks.len());
                    let c = *toks[k].last().unwrap_or(&b'a');
                    let c = if c.is_ascii_alphanumeric() { c } else { b'a' };
                    for _ in 0..*n {
                        toks[k].push(c);
                    }
                }
                Edit::InsertToken(i, j) => {
                    let k = i.index(toks.len() + 1);
                    let t = INSERT_POOL[j.index(INSERT_POOL.len())].as_bytes().to_vec();
                    toks.insert(k, t);
                    seps.insert(k.min(seps.len()), b'-');
                }
                Edit::MoveTokenToEnd(i) => {
                    let k = i.index(toks.len());
                    let t = toks.remove(k);
                    toks.push(t);
                }
                _ => {}
            }
            v = join_tokens(&toks, &seps);
        }
    }
    v
}

/// G3: a G2 rendering with 1..=3 edits
pub fn s_near_miss() -> SBoxedStrategy<Vec<u8>> {
    (s_ast(), vec(s_edit(), 1..=3))
        .prop_map(|(ast, edits)| {
            let mut b = ast.render();
            for e in &edits {
                b = apply_edit(&b, e);
            }
            b
        })
        .sboxed()
}

pub fn s_near_miss_langid() -> SBoxedStrategy<Vec<u8>> {
    (s_langid_bytes(), vec(s_edit(), 1..=3))
        .prop_map(|(mut b, edits)| {
            for e in &edits {
                b = apply_edit(&b, e);
            }
            b
        })
        .sboxed()
}

/// Inputs one character away from `b` (the last alphanumeric byte of the last three subtags and
/// of the first one, bumped to the next letter / digit): what a cache, a memo or a fast path
/// keyed on part of the input would confuse with `b`. Evaluated right before `b` on the same
/// thread, they make hidden state observable to an oracle that knows the answer for `b`.
pub fn neighbour_bytes(b: &[u8]) -> Vec<Vec<u8>> {
    fn bump(c: u8) -> u8 {
        match c {
            b'a'..=b'y' | b'A'..=b'Y' | b'0'..=b'8' => c + 1,
            b'z' => b'a',
            b'Z' => b'A',
            b'9' => b'0',
            _ => c,
        }
    }
    let mut ends = vec![];
    for i in 0..b.len() {
        if b[i].is_ascii_alphanumeric() && (i + 1 == b.len() || !b[i + 1].is_ascii_alphanumeric()) {
            ends.push(i);
        }
    }
    let mut out: Vec<Vec<u8>> = vec![];
    for &i in ends.iter().rev().take(3).chain(ends.first()) {
        let mut c = b.to_vec();
        c[i] = bump(c[i]);
        if c != b && !out.contains(&c) {
            out.push(c);
        }
    }
    out
}

/// G4: weighted raw bytes
pub fn s_raw() -> SBoxedStrategy<Vec<u8>> {
    vec(s_byte(), 0..48).sboxed()
}

// ------------------------------------------------------------------------------------------
// G5: CLDR corpus

pub struct Corpus {
    pub locale_names: Vec<String>,
    pub likely_keys: Vec<String>,
    pub likely_vals: Vec<String>,
}

pub fn corpus(repo: &Path) -> Corpus {
    let mut names = vec![];
    let main = repo.join("unic-langid-impl/data/cldr-misc-full/main");
    if let Ok(rd) = std::fs::read_dir(&main) {
        for e in rd.flatten() {
            names.push(e.file_name().to_string_lossy().to_string());
        }
    }
    names.sort();
    let mut keys = vec![];
    let mut vals = vec![];
    if let Ok(s) = std::fs::read_to_string(repo.join("unic-langid-impl/data/likelySubtags.json")) {
        if let Ok(v) = serde_json::from_str::<serde_json::Value>(&s) {
            if let Some(o) = v["supplemental"]["likelySubtags"].as_object() {
                for (k, val) in o {
                    keys.push(k.clone());
                    vals.push(val.as_str().unwrap_or("").to_string());
                }
            }
        }
    }
    Corpus { locale_names: names, likely_keys: keys, likely_vals: vals }
}

/// inputs that carry a well-formed extension with a singleton other than t / u / x, alone and next to
/// the supported extensions in every legal position (the library may reject or support them; if it
/// accepts one, the value is a reachable value like any other)
pub fn other_ext_inputs() -> Vec<Vec<u8>> {
    let mut out = vec![];
    for base in ["en", "en-US", "de-Latn-AT-1996", "und"] {
        // the last four repeat a singleton (ill-formed whether or not other extensions are supported)
        for o in ["a-foo", "b-cc", "w-one-two", "0-abc", "9-zz", "a-foo-b-bar", "s-abcdefgh", "v-aa-bb-cc", "y-true", "a-foo-a-bar", "7-one-7-two", "a-foo-b-bar-A-baz", "w-aa-u-ca-w-bb"] {
            for shape in [
                "{b}-{o}", "{b}-{o}-x-priv", "{b}-{o}-x-aa", "{b}-{o}-x-zz-yy", "{b}-{o}-u-ca-buddhist", "{b}-u-ca-buddhist-{o}", "{b}-u-attr-{o}-x-a", "{b}-t-en-{o}-x-aa",
                "{b}-{o}-t-h0-hybrid-u-nu-latn-x-a-b", "{b}-t-h0-hybrid-{o}-u-nu-latn", "{b}-u-nu-latn-t-en-us-{o}", "{b}-{o}-t-en", "{b}-x-aa-{o}",
            ] {
                let t = shape.replace("{b}", base).replace("{o}", o);
                out.push(t.to_ascii_uppercase().into_bytes());
                out.push(t.replace('-', "_").into_bytes());
                out.push(t.into_bytes());
            }
        }
    }
    out.sort();
    out.dedup();
    out
}

pub const EXT_SUFFIXES: &[&str] = &[
    "",
    "-u-ca-buddhist",
    "-u-attr-ca-buddhist-nu-thai",
    "-t-en-us-h0-hybrid",
    "-t-h0-hybrid-u-ca-buddhist",
    "-u-ca-buddhist-t-h0-hybrid",
    "-t-en-h0-hybrid-u-foo-ca-true-x-priv-a",
    "-x-u-t-x",
    "-u-ca-true",
    "-t-k0-true",
    "_U_CA_BUDDHIST",
];
