#![allow(dead_code)]
//! vcheck as a library: shared by the `vcheck` binary and the libFuzzer targets under /verif/fuzz.
pub mod gen;
pub mod likely;
pub mod model;
pub mod obs;
pub mod ops;
pub mod props;
pub mod run;
pub mod values;
pub mod fuzz;
