//! Independent reference model: recognisers and canonicaliser written from the UTS #35 EBNF
//! and the property statements. Uses only `std` (+ `regex` for the second formulation that
//! is cross-checked against the recursive-descent parser). No library types appear here.

use std::collections::BTreeMap;

pub fn split(b: &[u8]) -> Vec<&[u8]> {
    b.split(|c| *c == b'-' || *c == b'_').collect()
}

#[inline]
pub fn is_alpha(b: u8) -> bool {
    (b'a'..=b'z').contains(&b) || (b'A'..=b'Z').contains(&b)
}
#[inline]
pub fn is_digit(b: u8) -> bool {
    (b'0'..=b'9').contains(&b)
}
#[inline]
pub fn is_alnum(b: u8) -> bool {
    is_alpha(b) || is_digit(b)
}
fn all(t: &[u8], f: fn(u8) -> bool) -> bool {
    t.iter().all(|b| f(*b))
}

pub fn is_language(t: &[u8]) -> bool {
    matches!(t.len(), 2 | 3 | 5 | 6 | 7 | 8) && all(t, is_alpha)
}
pub fn is_script(t: &[u8]) -> bool {
    t.len() == 4 && all(t, is_alpha)
}
pub fn is_region(t: &[u8]) -> bool {
    (t.len() == 2 && all(t, is_alpha)) || (t.len() == 3 && all(t, is_digit))
}
pub fn is_variant(t: &[u8]) -> bool {
    ((5..=8).contains(&t.len()) && all(t, is_alnum))
        || (t.len() == 4 && is_digit(t[0]) && all(&t[1..], is_alnum))
}
/// attribute, type and tvalue share one shape: alphanum{3,8}
pub fn is_attr(t: &[u8]) -> bool {
    (3..=8).contains(&t.len()) && all(t, is_alnum)
}
pub fn is_key(t: &[u8]) -> bool {
    t.len() == 2 && is_alnum(t[0]) && is_alpha(t[1])
}
pub fn is_tkey(t: &[u8]) -> bool {
    t.len() == 2 && is_alpha(t[0]) && is_digit(t[1])
}
pub fn is_private(t: &[u8]) -> bool {
    (1..=8).contains(&t.len()) && all(t, is_alnum)
}
pub fn is_singleton(t: &[u8]) -> bool {
    t.len() == 1 && is_alnum(t[0])
}
pub fn is_other_sub(t: &[u8]) -> bool {
    (2..=8).contains(&t.len()) && all(t, is_alnum)
}

pub fn lower(t: &[u8]) -> String {
    t.iter().map(|b| b.to_ascii_lowercase() as char).collect()
}
pub fn upper(t: &[u8]) -> String {
    t.iter().map(|b| b.to_ascii_uppercase() as char).collect()
}
pub fn title(t: &[u8]) -> String {
    t.iter()
        .enumerate()
        .map(|(i, b)| {
            if i == 0 {
                b.to_ascii_uppercase() as char
            } else {
                b.to_ascii_lowercase() as char
            }
        })
        .collect()
}

#[derive(Clone, Debug, PartialEq, Eq, Default, PartialOrd, Ord, Hash)]
pub struct LangModel {
    /// None = undetermined ("und")
    pub language: Option<String>,
    pub script: Option<String>,
    pub region: Option<String>,
    /// sorted, unique
    pub variants: Vec<String>,
}

#[derive(Clone, Debug, PartialEq, Eq, Default, PartialOrd, Ord, Hash)]
pub struct LocaleModel {
    pub id: LangModel,
    /// sorted, unique
    pub attrs: Vec<String>,
    pub keywords: BTreeMap<String, Vec<String>>,
    pub tlang: Option<LangModel>,
    pub tfields: BTreeMap<String, Vec<String>>,
    /// sorted multiset
    pub private: Vec<String>,
}

impl LocaleModel {
    pub fn has_ext(&self) -> bool {
        !self.attrs.is_empty()
            || !self.keywords.is_empty()
            || self.tlang.is_some()
            || !self.tfields.is_empty()
            || !self.private.is_empty()
    }
    /// Copy with every "true" value removed from keyword types / tfield values
    /// (a "true" inside a multi-subtag value may be kept or dropped, DESIGN §5.1).
    pub fn without_true(&self) -> LocaleModel {
        let mut m = self.clone();
        for v in m.keywords.values_mut() {
            v.retain(|s| s != "true");
        }
        for v in m.tfields.values_mut() {
            v.retain(|s| s != "true");
        }
        m
    }
    /// A value list that is exactly ["true"] is never allowed in a value.
    pub fn has_lone_true(&self) -> bool {
        self.keywords
            .values()
            .chain(self.tfields.values())
            .any(|v| v.len() == 1 && v[0] == "true")
    }
}

#[derive(Clone, Copy, Debug, PartialEq, Eq)]
pub enum LangErr {
    InvalidLanguage,
    InvalidSubtag,
}

/// Greedy language-id prefix starting at tokens[*pos] (which must be a language subtag).
fn langid_prefix(tokens: &[&[u8]], pos: &mut usize) -> Option<LangModel> {
    let t = tokens.get(*pos)?;
    if !is_language(t) {
        return None;
    }
    let l = lower(t);
    let mut m = LangModel {
        language: if l == "und" { None } else { Some(l) },
        ..Default::default()
    };
    *pos += 1;
    if let Some(t) = tokens.get(*pos) {
        if is_script(t) {
            m.script = Some(title(t));
            *pos += 1;
        }
    }
    if let Some(t) = tokens.get(*pos) {
        if is_region(t) {
            m.region = Some(upper(t));
            *pos += 1;
        }
    }
    while let Some(t) = tokens.get(*pos) {
        if is_variant(t) {
            m.variants.push(lower(t));
            *pos += 1;
        } else {
            break;
        }
    }
    m.variants.sort();
    m.variants.dedup();
    Some(m)
}

pub fn ref_langid(b: &[u8]) -> Result<LangModel, LangErr> {
    let tokens = split(b);
    let mut pos = 0;
    match langid_prefix(&tokens, &mut pos) {
        None => Err(LangErr::InvalidLanguage),
        Some(m) => {
            if pos == tokens.len() {
                Ok(m)
            } else {
                Err(LangErr::InvalidSubtag)
            }
        }
    }
}

#[derive(Clone, Debug, Default)]
pub struct Parsed {
    pub model: LocaleModel,
    pub has_other: bool,
    pub dup_key: bool,
    pub valueless_tkey: bool,
    pub n_ext: usize,
    pub order: Vec<char>,
}

/// Recursive-descent locale parser. `lenient` additionally skips runs of empty subtags
/// that are adjacent to a singleton (before it or right after it) or trail the input, and
/// treats a singleton with an empty body as absent.
pub fn parse_locale_tokens(tokens_in: &[&[u8]], lenient: bool) -> Result<Parsed, String> {
    let mut tokens: Vec<&[u8]> = tokens_in.to_vec();
    if lenient {
        while tokens.len() > 1 && tokens.last().map_or(false, |t| t.is_empty()) {
            tokens.pop();
        }
    }
    let mut pos = 0usize;
    let id = langid_prefix(&tokens, &mut pos).ok_or_else(|| "first-not-language".to_string())?;
    let mut p = Parsed::default();
    p.model.id = id;
    let mut seen: Vec<u8> = vec![];
    let skip_empty = |pos: &mut usize| {
        if lenient {
            while tokens.get(*pos).map_or(false, |t| t.is_empty()) {
                *pos += 1;
            }
        }
    };
    loop {
        skip_empty(&mut pos);
        let Some(t) = tokens.get(pos) else { break };
        if !is_singleton(t) {
            return Err(format!("expected-singleton:{}", tok_class(t)));
        }
        let s = t[0].to_ascii_lowercase();
        pos += 1;
        skip_empty(&mut pos);
        let mut nonempty = false;
        match s {
            b'x' => {
                // consumes everything
                let mut tags = vec![];
                while let Some(t) = tokens.get(pos) {
                    if !is_private(t) {
                        return Err(format!("bad-private-tag:{}", tok_class(t)));
                    }
                    tags.push(lower(t));
                    pos += 1;
                }
                if !tags.is_empty() {
                    nonempty = true;
                    tags.sort();
                    if seen.contains(&s) {
                        return Err("repeated-singleton".to_string());
                    }
                    p.model.private = tags;
                }
            }
            b'u' => {
                let mut attrs = vec![];
                let mut kws: BTreeMap<String, Vec<String>> = BTreeMap::new();
                let mut dup = false;
                while let Some(t) = tokens.get(pos) {
                    if is_attr(t) {
                        attrs.push(lower(t));
                        pos += 1;
                    } else {
                        break;
                    }
                }
                while let Some(t) = tokens.get(pos) {
                    if !is_key(t) {
                        break;
                    }
                    let k = lower(t);
                    pos += 1;
                    let mut types = vec![];
                    while let Some(t) = tokens.get(pos) {
                        if is_attr(t) {
                            types.push(lower(t));
                            pos += 1;
                        } else {
                            break;
                        }
                    }
                    if types.len() == 1 && types[0] == "true" {
                        types.clear();
                    }
                    if kws.insert(k, types).is_some() {
                        dup = true;
                    }
                }
                if !attrs.is_empty() || !kws.is_empty() {
                    nonempty = true;
                    if seen.contains(&s) {
                        return Err("repeated-singleton".to_string());
                    }
                    attrs.sort();
                    attrs.dedup();
                    p.model.attrs = attrs;
                    p.model.keywords = kws;
                    p.dup_key |= dup;
                }
            }
            b't' => {
                let mut tlang = None;
                let mut tf: BTreeMap<String, Vec<String>> = BTreeMap::new();
                let mut dup = false;
                let mut valueless = false;
                if tokens.get(pos).map_or(false, |t| is_language(t)) {
                    tlang = langid_prefix(&tokens, &mut pos);
                }
                while let Some(t) = tokens.get(pos) {
                    if !is_tkey(t) {
                        break;
                    }
                    let k = lower(t);
                    pos += 1;
                    let mut vals = vec![];
                    while let Some(t) = tokens.get(pos) {
                        if is_attr(t) {
                            vals.push(lower(t));
                            pos += 1;
                        } else {
                            break;
                        }
                    }
                    if vals.is_empty() {
                        valueless = true;
                    }
                    if vals.len() == 1 && vals[0] == "true" {
                        vals.clear();
                    }
                    if tf.insert(k, vals).is_some() {
                        dup = true;
                    }
                }
                if tlang.is_some() || !tf.is_empty() {
                    nonempty = true;
                    if seen.contains(&s) {
                        return Err("repeated-singleton".to_string());
                    }
                    p.model.tlang = tlang;
                    p.model.tfields = tf;
                    p.dup_key |= dup;
                    p.valueless_tkey |= valueless;
                }
            }
            _ => {
                let mut n = 0;
                while let Some(t) = tokens.get(pos) {
                    if is_other_sub(t) {
                        n += 1;
                        pos += 1;
                    } else {
                        break;
                    }
                }
                if n > 0 {
                    nonempty = true;
                    if seen.contains(&s) {
                        return Err("repeated-singleton".to_string());
                    }
                    p.has_other = true;
                }
            }
        }
        if nonempty {
            seen.push(s);
            p.n_ext += 1;
            p.order.push(s as char);
        } else if !lenient {
            return Err("empty-extension-body".to_string());
        }
    }
    Ok(p)
}

pub fn tok_class(t: &[u8]) -> String {
    if t.is_empty() {
        return "empty".into();
    }
    let c = if t.iter().all(|b| is_alpha(*b)) {
        'a'
    } else if t.iter().all(|b| is_digit(*b)) {
        'd'
    } else if t.iter().all(|b| is_alnum(*b)) {
        if is_digit(t[0]) {
            'n'
        } else {
            'm'
        }
    } else {
        'x'
    };
    format!("len{}{}", t.len().min(10), c)
}

#[derive(Clone, Debug)]
pub enum Zone {
    /// well-formed, library must return Ok with exactly this value
    MustAccept(LocaleModel, Parsed),
    /// Ok or Err; if Ok the value must equal this model
    Either(LocaleModel, &'static str),
    MustReject(String),
    /// duplicate keyword keys / tfield keys (outside C03)
    OutOfScope,
}

pub fn ref_locale(b: &[u8]) -> Zone {
    let tokens = split(b);
    match parse_locale_tokens(&tokens, false) {
        Ok(p) => {
            if p.dup_key {
                Zone::OutOfScope
            } else if p.has_other {
                Zone::Either(p.model, "other-extension")
            } else if p.valueless_tkey {
                Zone::Either(p.model, "tkey-without-tvalue")
            } else {
                Zone::MustAccept(p.model.clone(), p)
            }
        }
        Err(_) => match parse_locale_tokens(&tokens, true) {
            Ok(p) => {
                if p.dup_key {
                    Zone::OutOfScope
                } else {
                    Zone::Either(p.model, "empty-subtag-or-body")
                }
            }
            Err(why) => Zone::MustReject(why),
        },
    }
}

pub fn canon_langid(m: &LangModel) -> String {
    let mut s = String::new();
    s.push_str(m.language.as_deref().unwrap_or("und"));
    if let Some(x) = &m.script {
        s.push('-');
        s.push_str(x);
    }
    if let Some(x) = &m.region {
        s.push('-');
        s.push_str(x);
    }
    for v in &m.variants {
        s.push('-');
        s.push_str(v);
    }
    s
}

pub fn canon_ext(m: &LocaleModel) -> String {
    let mut s = String::new();
    if m.tlang.is_some() || !m.tfields.is_empty() {
        s.push_str("-t");
        if let Some(tl) = &m.tlang {
            s.push('-');
            s.push_str(&canon_langid(tl));
        }
        for (k, vs) in &m.tfields {
            s.push('-');
            s.push_str(k);
            for v in vs {
                s.push('-');
                s.push_str(v);
            }
        }
    }
    if !m.attrs.is_empty() || !m.keywords.is_empty() {
        s.push_str("-u");
        for a in &m.attrs {
            s.push('-');
            s.push_str(a);
        }
        for (k, vs) in &m.keywords {
            s.push('-');
            s.push_str(k);
            for v in vs {
                s.push('-');
                s.push_str(v);
            }
        }
    }
    if !m.private.is_empty() {
        s.push_str("-x");
        for t in &m.private {
            s.push('-');
            s.push_str(t);
        }
    }
    s
}

pub fn canon_locale(m: &LocaleModel) -> String {
    let mut s = canon_langid(&m.id);
    s.push_str(&canon_ext(m));
    s
}

/// Strict canonical-form recogniser used by C04: `out` must be pure ASCII [A-Za-z0-9-],
/// must be well-formed under the strict parser (a key/tkey without value is tolerated,
/// DESIGN §5.2; no `other` extension; no duplicate key) and must be byte-identical to the
/// canonical rendering of its own model (which fixes case, order, uniqueness, no `true`,
/// t-u-x order, no empty extension).
pub fn is_canonical_locale(out: &str) -> Result<(), String> {
    if !out.bytes().all(|b| is_alnum(b) || b == b'-') {
        return Err("byte outside [A-Za-z0-9-]".into());
    }
    let tokens = split(out.as_bytes());
    let p = parse_locale_tokens(&tokens, false).map_err(|e| format!("not well-formed ({e})"))?;
    if p.has_other {
        return Err("other extension".into());
    }
    if p.dup_key {
        return Err("duplicate key".into());
    }
    let c = canon_locale(&p.model);
    if c != out {
        return Err(format!("not canonical: canon of its own reading is {c:?}"));
    }
    // token-level re-check that nothing was dropped by the model (e.g. a `true`)
    if out.split('-').any(|t| t == "true") {
        // `true` may only be an attribute or a private tag
        let n_true = out.split('-').filter(|t| *t == "true").count();
        let allowed = p.model.attrs.iter().filter(|a| *a == "true").count()
            + p.model.private.iter().filter(|a| *a == "true").count()
            + p.model
                .keywords
                .values()
                .chain(p.model.tfields.values())
                .map(|v| if v.len() > 1 { v.iter().filter(|s| *s == "true").count() } else { 0 })
                .sum::<usize>();
        if n_true > allowed {
            return Err("contains a `true` value".into());
        }
    }
    Ok(())
}

pub fn is_canonical_langid(out: &str) -> Result<(), String> {
    if !out.bytes().all(|b| is_alnum(b) || b == b'-') {
        return Err("byte outside [A-Za-z0-9-]".into());
    }
    let m = ref_langid(out.as_bytes()).map_err(|_| "not well-formed".to_string())?;
    let c = canon_langid(&m);
    if c != out {
        return Err(format!("not canonical: canon of its own reading is {c:?}"));
    }
    Ok(())
}

// ---------------------------------------------------------------------------------------
// Second formulation: anchored regular expressions over the lower-cased, '-'-normalised text.

pub struct Rx {
    pub langid: regex::bytes::Regex,
    pub locale: regex::bytes::Regex,
}

pub fn rx() -> &'static Rx {
    use std::sync::OnceLock;
    static RX: OnceLock<Rx> = OnceLock::new();
    RX.get_or_init(|| {
        let lang = "(?:[a-z]{2,3}|[a-z]{5,8})";
        let script = "[a-z]{4}";
        let region = "(?:[a-z]{2}|[0-9]{3})";
        let variant = "(?:[a-z0-9]{5,8}|[0-9][a-z0-9]{3})";
        let langid = format!("{lang}(?:-{script})?(?:-{region})?(?:-{variant})*");
        let kw = "-[a-z0-9][a-z](?:-[a-z0-9]{3,8})*";
        let uext = format!("u(?:(?:-[a-z0-9]{{3,8}})+(?:{kw})*|(?:{kw})+)");
        let tf = "-[a-z][0-9](?:-[a-z0-9]{3,8})+";
        let text = format!("t(?:-{langid}(?:{tf})*|(?:{tf})+)");
        let pu = "x(?:-[a-z0-9]{1,8})+";
        let locale = format!(
            "^{langid}(?:-{uext}(?:-{text})?|-{text}(?:-{uext})?)?(?:-{pu})?$"
        );
        Rx {
            langid: regex::bytes::Regex::new(&format!("(?-u)^{langid}$")).unwrap(),
            locale: regex::bytes::Regex::new(&format!("(?-u){locale}")).unwrap(),
        }
    })
}

pub fn normalise(b: &[u8]) -> Vec<u8> {
    b.iter()
        .map(|c| if *c == b'_' { b'-' } else { c.to_ascii_lowercase() })
        .collect()
}

/// Cross-check of the two formulations on one input. Err = oracle defect (exit 2).
pub fn self_check(b: &[u8]) -> Result<(), String> {
    let n = normalise(b);
    let r1 = rx().langid.is_match(&n);
    let p1 = ref_langid(b).is_ok();
    if r1 != p1 {
        return Err(format!(
            "langid formulations disagree on {:?}: regex={r1} parser={p1}",
            String::from_utf8_lossy(b)
        ));
    }
    let r2 = rx().locale.is_match(&n);
    let p2 = match parse_locale_tokens(&split(b), false) {
        Ok(p) => !p.has_other && !p.valueless_tkey,
        Err(_) => false,
    };
    if r2 != p2 {
        return Err(format!(
            "locale formulations disagree on {:?}: regex={r2} parser={p2}",
            String::from_utf8_lossy(b)
        ));
    }
    Ok(())
}
