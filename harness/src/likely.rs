//! Reference for likely subtags and character direction, built at run time from the CLDR JSON
//! files under /repo/unic-langid-impl/data (never from tables.rs / layout_table.rs).
//! Subtags are interned as small integers; index 0 = absent.

use std::collections::{BTreeMap, BTreeSet, HashMap};
use std::path::Path;

pub type Id = u16;

#[derive(Clone, Copy, Debug, PartialEq, Eq, Hash)]
pub struct Triple {
    pub l: Id,
    pub s: Id,
    pub r: Id,
}

pub struct Universe {
    /// index 0 = absent ("und" for languages); then the subtags occurring in the CLDR data
    /// (sorted), then the unknown representatives, then the extended unknowns
    pub langs: Vec<String>,
    pub scripts: Vec<String>,
    pub regions: Vec<String>,
    pub n_known_langs: usize,
    pub n_known_scripts: usize,
    pub n_known_regions: usize,
    /// sizes of the core universe (absent + CLDR subtags + unknown representatives); the
    /// entries beyond are well-formed subtags that do not occur in the data
    pub n_core_langs: usize,
    pub n_core_scripts: usize,
    pub n_core_regions: usize,
}

pub struct Likely {
    pub uni: Universe,
    pub version: String,
    pub entries: Vec<(String, String)>,
    pub und: Option<Triple>,
    pub lang_only: HashMap<Id, Triple>,
    pub lang_region: HashMap<(Id, Id), Triple>,
    pub lang_script: HashMap<(Id, Id), Triple>,
    pub script_region: HashMap<(Id, Id), Triple>,
    pub script_only: HashMap<Id, Triple>,
    pub region_only: HashMap<Id, Triple>,
    /// key triple -> value triple for every entry
    pub by_key: Vec<(Triple, Triple)>,
}

#[derive(Clone, Copy, Debug, PartialEq, Eq)]
pub enum Expect {
    /// the library must return exactly this (None = unchanged)
    Exact(Option<Triple>),
    /// strict reading finds no entry but a UTS #35 fallback exists: None or a filled value
    /// that keeps every given subtag is accepted
    NoneOrFallback,
}

fn kind(t: &str) -> char {
    if t == "und" {
        'u'
    } else if t.len() == 4 && t.bytes().all(|b| b.is_ascii_alphabetic()) {
        'S'
    } else if (t.len() == 2 && t.bytes().all(|b| b.is_ascii_uppercase())) || (t.len() == 3 && t.bytes().all(|b| b.is_ascii_digit())) {
        'R'
    } else {
        'L'
    }
}

pub const UNKNOWN_LANGS: &[&str] = &["qq", "qqq", "qqqqq"];
pub const UNKNOWN_SCRIPTS: &[&str] = &["Qqqq"];
/// special-purpose codes and other well-formed subtags that the data may or may not mention
pub const SPECIAL_LANGS: &[&str] = &["mul", "zxx", "mis", "sh", "tlh", "mo", "iw", "in", "ji", "abcdefgh", "undef", "rooot"];
pub const SPECIAL_SCRIPTS: &[&str] = &["Zzzz", "Zyyy", "Zinh", "Zxxx", "Zsym", "Zmth", "Qaaa", "Qabx", "Brai", "Aran", "Latf", "Hanb"];
pub const UNKNOWN_REGIONS: &[&str] = &["QQ", "999"];

impl Likely {
    pub fn load(repo: &Path) -> Result<Likely, String> {
        let p = repo.join("unic-langid-impl/data/likelySubtags.json");
        let s = std::fs::read_to_string(&p).map_err(|e| format!("{}: {e}", p.display()))?;
        let v: serde_json::Value = serde_json::from_str(&s).map_err(|e| e.to_string())?;
        let version = v["supplemental"]["version"]["_cldrVersion"].as_str().unwrap_or("").to_string();
        let obj = v["supplemental"]["likelySubtags"].as_object().ok_or("no likelySubtags object")?;
        let mut ls = BTreeSet::new();
        let mut ss = BTreeSet::new();
        let mut rs = BTreeSet::new();
        let mut entries = vec![];
        for (k, val) in obj {
            let val = val.as_str().ok_or("non-string value")?.to_string();
            for t in k.split('-').chain(val.split('-')) {
                match kind(t) {
                    'L' => {
                        ls.insert(t.to_string());
                    }
                    'S' => {
                        ss.insert(t.to_string());
                    }
                    'R' => {
                        rs.insert(t.to_string());
                    }
                    _ => {}
                }
            }
            entries.push((k.clone(), val));
        }
        let mut langs = vec!["und".to_string()];
        langs.extend(ls.iter().cloned());
        let n_known_langs = langs.len();
        for u in UNKNOWN_LANGS {
            if ls.contains(*u) {
                return Err(format!("unknown representative {u} occurs in the data"));
            }
            langs.push(u.to_string());
        }
        let mut scripts = vec!["".to_string()];
        scripts.extend(ss.iter().cloned());
        let n_known_scripts = scripts.len();
        for u in UNKNOWN_SCRIPTS {
            if ss.contains(*u) {
                return Err(format!("unknown representative {u} occurs in the data"));
            }
            scripts.push(u.to_string());
        }
        let mut regions = vec!["".to_string()];
        regions.extend(rs.iter().cloned());
        let n_known_regions = regions.len();
        for u in UNKNOWN_REGIONS {
            if rs.contains(*u) {
                return Err(format!("unknown representative {u} occurs in the data"));
            }
            regions.push(u.to_string());
        }
        let (n_core_langs, n_core_scripts, n_core_regions) = (langs.len(), scripts.len(), regions.len());
        // extended unknowns: every two-letter language, every 7th three-letter language, the
        // special codes; one-letter neighbours (first / last letter) of every known script and
        // the special script codes; EVERY well-formed region (676 + 1000)
        {
            let mut have: BTreeSet<String> = langs.iter().cloned().collect();
            let mut add = |v: String, have: &mut BTreeSet<String>, to: &mut Vec<String>| {
                if have.insert(v.clone()) {
                    to.push(v);
                }
            };
            for s in SPECIAL_LANGS {
                add(s.to_string(), &mut have, &mut langs);
            }
            for a in b'a'..=b'z' {
                for b in b'a'..=b'z' {
                    add(String::from_utf8(vec![a, b]).unwrap(), &mut have, &mut langs);
                }
            }
            let mut k = 0u32;
            for a in b'a'..=b'z' {
                for b in b'a'..=b'z' {
                    for c in b'a'..=b'z' {
                        k += 1;
                        if k % 7 == 3 {
                            add(String::from_utf8(vec![a, b, c]).unwrap(), &mut have, &mut langs);
                        }
                    }
                }
            }
            // long (5-8 letter) languages that merely CONTAIN a known language: a look-up key
            // that keeps only part of the subtag (first three bytes, low 32 bits ...) confuses
            // them with it. Every known language padded to 5 letters; the languages that own
            // two-component entries also padded to 8 letters and prefixed.
            let known: Vec<String> = langs[1..n_known_langs].to_vec();
            let rich: BTreeSet<String> = entries
                .iter()
                .filter_map(|(k, _)| {
                    let mut it = k.split('-');
                    let first = it.next()?;
                    if kind(first) == 'L' && it.next().is_some() {
                        Some(first.to_string())
                    } else {
                        None
                    }
                })
                .collect();
            for l in &known {
                if l.len() > 3 {
                    continue;
                }
                add(format!("{l}{}", &"xxx"[..5 - l.len()]), &mut have, &mut langs);
                if rich.contains(l) {
                    add(format!("{l}{}", &"qrstuv"[..8 - l.len()]), &mut have, &mut langs);
                    add(format!("{}{l}", &"zzz"[..5 - l.len()]), &mut have, &mut langs);
                }
            }
            let mut have: BTreeSet<String> = scripts.iter().cloned().collect();
            for s in SPECIAL_SCRIPTS {
                add(s.to_string(), &mut have, &mut scripts);
            }
            let known: Vec<String> = scripts[1..n_known_scripts].to_vec();
            for s in known {
                let b = s.as_bytes();
                let bump = |c: u8, lo: u8, hi: u8| if c == hi { lo } else { c + 1 };
                let mut x = b.to_vec();
                x[0] = bump(x[0], b'A', b'Z');
                add(String::from_utf8(x).unwrap(), &mut have, &mut scripts);
                let mut y = b.to_vec();
                y[3] = bump(y[3], b'a', b'z');
                add(String::from_utf8(y).unwrap(), &mut have, &mut scripts);
            }
            let mut have: BTreeSet<String> = regions.iter().cloned().collect();
            for a in b'A'..=b'Z' {
                for b in b'A'..=b'Z' {
                    add(String::from_utf8(vec![a, b]).unwrap(), &mut have, &mut regions);
                }
            }
            for n in 0..1000 {
                add(format!("{n:03}"), &mut have, &mut regions);
            }
        }
        let li: BTreeMap<String, Id> = langs.iter().enumerate().map(|(i, s)| (s.clone(), i as Id)).collect();
        let si: BTreeMap<String, Id> = scripts.iter().enumerate().map(|(i, s)| (s.clone(), i as Id)).collect();
        let ri: BTreeMap<String, Id> = regions.iter().enumerate().map(|(i, s)| (s.clone(), i as Id)).collect();
        let to_triple = |text: &str| -> Result<Triple, String> {
            let mut t = Triple { l: 0, s: 0, r: 0 };
            for (i, tok) in text.split('-').enumerate() {
                match kind(tok) {
                    'u' if i == 0 => {}
                    'L' if i == 0 => t.l = li[tok],
                    'S' => t.s = si[tok],
                    'R' => t.r = ri[tok],
                    _ => return Err(format!("cannot read {text:?}")),
                }
            }
            Ok(t)
        };
        let mut me = Likely {
            uni: Universe { langs, scripts, regions, n_known_langs, n_known_scripts, n_known_regions, n_core_langs, n_core_scripts, n_core_regions },
            version,
            entries: entries.clone(),
            und: None,
            lang_only: HashMap::new(),
            lang_region: HashMap::new(),
            lang_script: HashMap::new(),
            script_region: HashMap::new(),
            script_only: HashMap::new(),
            region_only: HashMap::new(),
            by_key: vec![],
        };
        for (k, val) in &entries {
            let kt = to_triple(k)?;
            let mut vt = to_triple(val)?;
            // the table generator drops a ZZ region from values
            if vt.r != 0 && me.uni.regions[vt.r as usize] == "ZZ" {
                vt.r = 0;
            }
            me.by_key.push((kt, vt));
            match (kt.l != 0, kt.s != 0, kt.r != 0) {
                (false, false, false) => me.und = Some(vt),
                (true, false, false) => {
                    me.lang_only.insert(kt.l, vt);
                }
                (true, false, true) => {
                    me.lang_region.insert((kt.l, kt.r), vt);
                }
                (true, true, false) => {
                    me.lang_script.insert((kt.l, kt.s), vt);
                }
                (false, true, true) => {
                    me.script_region.insert((kt.s, kt.r), vt);
                }
                (false, true, false) => {
                    me.script_only.insert(kt.s, vt);
                }
                (false, false, true) => {
                    me.region_only.insert(kt.r, vt);
                }
                (true, true, true) => return Err(format!("unexpected key shape {k}")),
            }
        }
        Ok(me)
    }

    /// strict cascade of the property statement
    pub fn strict_max(&self, t: Triple) -> Option<Triple> {
        if t.l != 0 && t.s != 0 && t.r != 0 {
            return None;
        }
        let keep = |e: &Triple| Triple {
            l: if t.l != 0 { t.l } else { e.l },
            s: if t.s != 0 { t.s } else { e.s },
            r: if t.r != 0 { t.r } else { e.r },
        };
        if t.l != 0 {
            if t.r != 0 {
                if let Some(e) = self.lang_region.get(&(t.l, t.r)) {
                    return Some(keep(e));
                }
            }
            if t.s != 0 {
                if let Some(e) = self.lang_script.get(&(t.l, t.s)) {
                    return Some(keep(e));
                }
            }
            if let Some(e) = self.lang_only.get(&t.l) {
                return Some(keep(e));
            }
            None
        } else if t.s != 0 {
            if t.r != 0 {
                if let Some(e) = self.script_region.get(&(t.s, t.r)) {
                    return Some(keep(e));
                }
            }
            self.script_only.get(&t.s).map(keep)
        } else if t.r != 0 {
            self.region_only.get(&t.r).map(keep)
        } else {
            None
        }
    }

    pub fn expect_max(&self, t: Triple) -> Expect {
        match self.strict_max(t) {
            Some(v) => Expect::Exact(Some(v)),
            None => {
                if t.l != 0 && t.s != 0 && t.r != 0 {
                    return Expect::Exact(None);
                }
                // UTS #35 fallbacks the property allows either way
                let fb = if t.l == 0 && t.s == 0 && t.r == 0 {
                    self.und.is_some()
                } else if t.l != 0 {
                    // unknown (to the matching entries) language: und_script
                    t.s != 0 && (self.script_only.contains_key(&t.s) || (t.r != 0 && self.script_region.contains_key(&(t.s, t.r))))
                } else {
                    // und with an unknown script: und_region
                    t.s != 0 && t.r != 0 && self.region_only.contains_key(&t.r)
                };
                if fb {
                    Expect::NoneOrFallback
                } else {
                    Expect::Exact(None)
                }
            }
        }
    }

    /// the UTS #35 fallback answer in the three cases where the strict cascade finds nothing
    /// and the property allows either `None` or the fallback (given subtags kept)
    pub fn fallback(&self, t: Triple) -> Option<Triple> {
        let keep = |e: &Triple| Triple {
            l: if t.l != 0 { t.l } else { e.l },
            s: if t.s != 0 { t.s } else { e.s },
            r: if t.r != 0 { t.r } else { e.r },
        };
        if t.l == 0 && t.s == 0 && t.r == 0 {
            return self.und.as_ref().map(keep);
        }
        if t.l != 0 {
            if t.s == 0 {
                return None;
            }
            if t.r != 0 {
                if let Some(e) = self.script_region.get(&(t.s, t.r)) {
                    return Some(keep(e));
                }
            }
            return self.script_only.get(&t.s).map(keep);
        }
        if t.s != 0 && t.r != 0 {
            return self.region_only.get(&t.r).map(keep);
        }
        None
    }

    /// reference minimize (UTS #35 "remove likely subtags" restricted to l/s/r), strict tables
    pub fn strict_min(&self, t: Triple) -> Option<Triple> {
        let max = if t.l != 0 && t.s != 0 && t.r != 0 { t } else { self.strict_max(t)? };
        let m0 = |x: Triple| self.strict_max(x);
        let trial = Triple { l: max.l, s: 0, r: 0 };
        if m0(trial) == Some(max) {
            return Some(trial);
        }
        if max.r != 0 {
            let trial = Triple { l: max.l, s: 0, r: max.r };
            if m0(trial) == Some(max) {
                return Some(trial);
            }
        }
        if max.s != 0 {
            let trial = Triple { l: max.l, s: max.s, r: 0 };
            if m0(trial) == Some(max) {
                return Some(trial);
            }
        }
        None
    }

    pub fn show(&self, t: Triple) -> String {
        let mut s = self.uni.langs[t.l as usize].clone();
        if t.s != 0 {
            s.push('-');
            s.push_str(&self.uni.scripts[t.s as usize]);
        }
        if t.r != 0 {
            s.push('-');
            s.push_str(&self.uni.regions[t.r as usize]);
        }
        s
    }
}

// ------------------------------------------------------------------------------------------
// direction model from the layout files

#[derive(Clone, Copy, Debug, PartialEq, Eq)]
pub enum Dir {
    Ltr,
    Rtl,
    Ttb,
}

pub struct Layout {
    /// locale name -> characterOrder
    pub locales: Vec<(String, Dir)>,
    pub script_dir: BTreeMap<String, Dir>,
    pub rtl_langs: BTreeSet<String>,
    /// languages that occur with more than one direction
    pub multi_dir_langs: BTreeSet<String>,
    pub version: String,
}

impl Layout {
    pub fn load(repo: &Path) -> Result<Layout, String> {
        let main = repo.join("unic-langid-impl/data/cldr-misc-full/main");
        let mut locales = vec![];
        let mut version = String::new();
        let rd = std::fs::read_dir(&main).map_err(|e| format!("{}: {e}", main.display()))?;
        let mut names: Vec<_> = rd.flatten().map(|e| e.file_name().to_string_lossy().to_string()).collect();
        names.sort();
        for n in names {
            let p = main.join(&n).join("layout.json");
            let s = std::fs::read_to_string(&p).map_err(|e| format!("{}: {e}", p.display()))?;
            let v: serde_json::Value = serde_json::from_str(&s).map_err(|e| e.to_string())?;
            let obj = v["main"].as_object().ok_or("no main")?;
            let (key, body) = obj.iter().next().ok_or("empty main")?;
            if key == "root" {
                continue;
            }
            let d = match body["layout"]["orientation"]["characterOrder"].as_str() {
                Some("left-to-right") => Dir::Ltr,
                Some("right-to-left") => Dir::Rtl,
                Some("top-to-bottom") => Dir::Ttb,
                other => return Err(format!("{n}: characterOrder {other:?}")),
            };
            if let Some(ver) = body["identity"]["version"]["_cldrVersion"].as_str() {
                version = ver.to_string();
            }
            locales.push((key.clone(), d));
        }
        let mut script_dir = BTreeMap::new();
        let mut rtl_langs = BTreeSet::new();
        let mut lang_dirs: BTreeMap<String, BTreeSet<u8>> = BTreeMap::new();
        for (name, d) in &locales {
            let toks: Vec<&str> = name.split('-').collect();
            let lang = toks[0].to_string();
            lang_dirs.entry(lang.clone()).or_default().insert(*d as u8);
            if *d == Dir::Rtl {
                rtl_langs.insert(lang);
            }
            if let Some(sc) = toks.iter().skip(1).find(|t| t.len() == 4 && t.bytes().all(|b| b.is_ascii_alphabetic())) {
                if let Some(old) = script_dir.insert(sc.to_string(), *d) {
                    if old != *d {
                        return Err(format!("script {sc} has two directions in the layout data"));
                    }
                }
            }
        }
        let multi_dir_langs = lang_dirs.iter().filter(|(_, v)| v.len() > 1).map(|(k, _)| k.clone()).collect();
        Ok(Layout { locales, script_dir, rtl_langs, multi_dir_langs, version })
    }
}
